#!/usr/bin/env python3
"""Regenerate MANIFEST.json from props.py (claimed checks) and not_applicable.json."""
import json, os, sys
ROOT = os.path.dirname(os.path.abspath(__file__))
sys.path.insert(0, ROOT)
from props import PROPS, NOT_APPLICABLE

checks = []
for pid in sorted(PROPS):
    c = PROPS[pid]
    checks.append({
        "property_id": pid,
        "quick_cmd": "./check %s --tier quick" % pid,
        "thorough_cmd": "./check %s --tier thorough" % pid,
        "evidence_file": "/verif/evidence/%s.json" % pid,
        "replay_cmd_template": "./check %s --replay {path}" % pid,
        "engine": c.get("engine", "verus+kani"),
        "level_claimed": {"category": c.get("level", "proof"), "text": c["level_text"], "design_ref": c.get("design_ref", "DESIGN.md §4 " + pid)},
        "level_note": c["level_note"],
        "technique": c.get("technique", "contract-based deductive verification (Verus contracts on mechanically extracted real functions)"),
    })
na = list(NOT_APPLICABLE)
have = set(PROPS) | set(x["property_id"] for x in na)
for l in open(os.path.join(ROOT, "properties.jsonl")):
    pid = json.loads(l)["id"]
    if pid not in have:
        na.append({"property_id": pid, "reason": "no check registered at this commit: the contracts planned for it in DESIGN.md are not built/verified yet, so nothing is claimed"})
na.sort(key=lambda x: x["property_id"])
m = {
    "version": 1,
    "setup_cmd": "./setup.sh",
    "hooks": {
        "guard": "cfg(kani)",
        "enable": "no source hooks in /repo: Verus units are re-extracted from /repo's working tree on every run; Kani harnesses are appended as `#[cfg(kani)] #[path=..] mod` lines to a scratch copy of the working tree under /verif/build/kani-src (cfg(kani) is set by `cargo kani` only)",
        "baseline_off_cmd": "cd /repo && cargo test --workspace --no-fail-fast --offline",
        "source_commits": [],
        "add_only": True,
    },
    "engines": [
        {"name": "verus", "path": "/verif/vx", "serves_properties": sorted(p for p in PROPS if PROPS[p].get("units")),
         "kind_free_text": "Verus 0.2026.09.13 (Z3) on single-file units woven from functions extracted mechanically from /repo on every run"},
        {"name": "kani", "path": "/verif/kani", "serves_properties": sorted(p for p in PROPS if any(PROPS[p].get("kani", {}).values())),
         "kind_free_text": "Kani 0.68 / CBMC 6.11 on a verbatim copy of /repo with harness modules appended under cfg(kani)"},
        {"name": "native-bounded", "path": "/verif/native", "serves_properties": sorted(p for p in PROPS if PROPS[p].get("native_fallback") or PROPS[p].get("native_cex") or PROPS[p].get("native_thorough")),
         "kind_free_text": "bounded native enumerations on a verbatim copy of /repo (cfg(test) modules appended): NOT a deciding engine - they replay a verifier's failed obligation as a concrete input, "
                           "stand in (labelled bounded) when part of a unit could not be given to the verifier, and run as extra bounded checks in the thorough tier; never counted as proved"},
    ],
    "checks": checks,
    "not_applicable": na,
    "notes": "All checks: exit 0 = every obligation discharged; exit 1 + VIOLATION line = an obligation that is discharged on the unchanged tree now fails; exit 2 = undecided (lost anchor / tool failure / resource limit / a watched function that is not under contract has changed and the bounded stand-in found nothing), never an alarm. A VIOLATION whose obligation name ends in `_replay` comes from a bounded native stand-in (engine native-bounded in the replay file), not from a proof; on a tree whose sources differ from tree_hash.json those enumerations also run when every obligation passed (soft watch). See DESIGN.md section 0a.",
}
json.dump(m, open(os.path.join(ROOT, "MANIFEST.json"), "w"), indent=1)
print("MANIFEST.json: %d checks, %d not applicable" % (len(checks), len(na)))
