"""Engine K: Kani on a verbatim copy of /repo's working tree with harness modules appended."""
import os
import re
import subprocess
import sys
import time

ROOT = os.path.dirname(os.path.abspath(__file__))
sys.path.insert(0, os.path.join(ROOT, "vx"))
sys.path.insert(0, os.path.join(ROOT, "kani"))
from verus_run import Undecided  # noqa: E402
import inject  # noqa: E402

SRC = os.path.join(ROOT, "build", "kani-src")
TARGET = os.path.join(ROOT, "build", "kani-target")
HARNESS_DIR = os.path.join(ROOT, "kani", "harness")


def harness_index():
    """name -> {kind, file, doc}; parsed from `/// kind: ...` doc comments."""
    idx = {}
    for f in sorted(os.listdir(HARNESS_DIR)):
        if not f.endswith(".rs"):
            continue
        text = open(os.path.join(HARNESS_DIR, f)).read()
        for m in re.finditer(r"((?:[ \t]*///[^\n]*\n)+)(?:[ \t]*#\[[^\n]*\]\n)+[ \t]*(?:pub\s+)?fn\s+([A-Za-z0-9_]+)", text):
            doc = m.group(1)
            km = re.search(r"kind:\s*([a-z]+(?:\([^)]*\))?)", doc)
            if km:
                idx[m.group(2)] = {"kind": km.group(1), "file": f, "doc": " ".join(l.strip().lstrip("/").strip() for l in doc.strip().split("\n"))}
    return idx


def _env():
    e = dict(os.environ)
    e["CARGO_TARGET_DIR"] = TARGET
    e["CARGO_NET_OFFLINE"] = "true"
    return e


def prepare(repo):
    try:
        return inject.inject(repo, SRC)
    except SystemExit as e:
        raise Undecided("kani inject: %s" % e)
    except subprocess.CalledProcessError as e:
        raise Undecided("kani inject: %s" % e)


def _run(args, timeout):
    cmd = ["cargo", "kani"] + args
    t0 = time.time()
    try:
        p = subprocess.run(cmd, cwd=SRC, env=_env(), capture_output=True, text=True, timeout=timeout)
    except subprocess.TimeoutExpired as e:
        return None, (e.stdout or "") if isinstance(e.stdout, str) else "", time.time() - t0, " ".join(cmd)
    return p, p.stdout + "\n" + p.stderr, time.time() - t0, " ".join(cmd)


def run_harnesses(names, repo, tier, extra_flags=None, timeout=None):
    idx = harness_index()
    for n in names:
        if n not in idx:
            raise Undecided("kani harness %s not found / has no kind label" % n)
    prepare(repo)
    timeout = timeout or (3000 if tier == "thorough" else 900)
    args = ["-Z", "stubbing", "-Z", "function-contracts", "--output-format", "terse", "-j", "8"]
    for n in names:
        args += ["--harness", n]
    if extra_flags:
        args += extra_flags
    p, out, wall, cmd = _run(args, timeout)
    if p is None:
        raise Undecided("kani timed out after %ds (%s)" % (timeout, " ".join(names)))
    if "error: could not compile" in out or "error[E" in out:
        raise Undecided("kani: the harness build failed (lost anchor / API change?): %s" % out[-1500:])
    res = []
    # per-harness blocks; with -j the output is "Thread k: Checking harness X..." followed later by
    # "Thread k: " + result block
    seen, blocks, cur, active = {}, {}, {}, None
    for line in out.split("\n"):
        m1 = re.match(r"(?:Thread (\d+): )?Checking harness (.*?)\.\.\.", line)
        m2 = re.match(r"Thread (\d+): ?$", line)
        if m1:
            th = m1.group(1) or "0"
            nm = m1.group(2).strip().split("::")[-1]
            cur[th] = nm
            blocks.setdefault(nm, [])
            active = nm if m1.group(1) is None else None
            continue
        if m2:
            active = cur.get(m2.group(1))
            continue
        if line.startswith("Manual Harness Summary") or line.startswith("Thread "):
            active = None
            continue
        if active:
            blocks[active].append(line)
    for nm, ls in blocks.items():
        b = "\n".join(ls)
        status = "UNKNOWN"
        if "VERIFICATION:- SUCCESSFUL" in b:
            status = "SUCCESS"
        elif "VERIFICATION:- FAILED" in b:
            status = "FAILURE"
        fc = re.findall(r"Failed Checks: ([^\n]*)", b)
        tm = re.search(r"Verification Time: ([0-9.]+)s", b)
        # unwinding assertion failures mean the bound was too small: undecided, not a violation
        if status == "FAILURE" and fc and all("unwinding assertion" in x for x in fc):
            status = "UNWIND-BOUND-TOO-SMALL"
        if status == "FAILURE" and re.search(r"unsupported|CBMC failed|out of memory|Killed", b) and not fc:
            status = "TOOL-FAILURE"
        seen[nm] = {"name": nm, "kind": idx.get(nm, {}).get("kind", "?"), "status": status, "failed_checks": "; ".join(fc)[:1000],
                    "time_s": float(tm.group(1)) if tm else None, "tail": b[-1500:], "doc": idx.get(nm, {}).get("doc", "")}
    for n in names:
        res.append(seen.get(n, {"name": n, "kind": idx[n]["kind"], "status": "NOT-RUN", "failed_checks": "", "time_s": None, "tail": out[-800:], "doc": idx[n]["doc"]}))
    # attach a concrete counterexample to every genuine failure
    for h in res:
        if h["status"] == "FAILURE":
            h["cex"] = find_cex(h["name"], repo, prepared=True)
    bounded = [{"harness": h["name"], "bound": h["kind"], "status": h["status"], "what": h["doc"]} for h in res if h["kind"].startswith("bounded")]
    summary = {"harnesses": len(res), "complete_ok": sum(1 for h in res if h["kind"] == "complete" and h["status"] == "SUCCESS"),
               "bounded_ok": sum(1 for h in res if h["kind"].startswith("bounded") and h["status"] == "SUCCESS"),
               "wall_s": round(wall, 1), "times_s": {h["name"]: h["time_s"] for h in res}}
    trusted = ["Kani 0.68 / CBMC 6.11 (harnesses run on a verbatim copy of the working tree; only `#[cfg(kani)] mod` lines appended)"]
    return {"harnesses": res, "summary": summary, "bounded": bounded, "cmd": "(cd build/kani-src && CARGO_TARGET_DIR=build/kani-target %s)" % cmd, "trusted": trusted}


def find_cex(harness, repo, prepared=False):
    if not prepared:
        prepare(repo)
    p, out, wall, cmd = _run(["-Z", "stubbing", "-Z", "function-contracts", "-Z", "concrete-playback", "--concrete-playback=print", "--harness", harness], 900)
    if p is None:
        return None
    m = re.search(r"```\n(.*?)```", out, re.S)
    if not m:
        return None
    code = m.group(1)
    vals = re.findall(r"//\s*([^\n]+)\n\s*vec!\[([^\]]*)\]", code)
    fc = re.findall(r"Failed Checks: ([^\n]*)", out)
    idx = harness_index()
    return {"engine": "kani", "harness": harness, "harness_file": idx.get(harness, {}).get("file"), "failed_checks": fc,
            "concrete_values_in_kani_any_order": [v[0].strip() for v in vals], "playback_test": code}


def replay_cex(cex, repo):
    """Re-execute the counterexample natively on the real code: the harness body runs with the
    recorded values through `cargo kani playback` (an ordinary `cargo test` of the repository copy)."""
    prepare(repo)
    hf = os.path.join(SRC, "verif_harness", cex["harness_file"])
    with open(hf, "a") as f:
        f.write("\n" + cex["playback_test"] + "\n")
    tn = re.search(r"fn (kani_concrete_playback_[A-Za-z0-9_]+)", cex["playback_test"]).group(1)
    cmd = ["cargo", "kani", "playback", "-Z", "concrete-playback", "--", tn]
    p = subprocess.run(cmd, cwd=SRC, env=_env(), capture_output=True, text=True, timeout=1800)
    out = p.stdout + p.stderr
    print(out[-3000:])
    if re.search(r"test result: FAILED", out):
        print("REPLAY: the counterexample fails on the real code (violation reproduced)")
        return 1
    if re.search(r"test result: ok. 1 passed", out):
        print("REPLAY: the counterexample passes on the current tree")
        return 0
    print("REPLAY: inconclusive")
    return 2
