#!/usr/bin/env python3
"""tools_tree_hash.py: record the hash of /repo/src/**/*.rs of the tree the checks were developed against (tree_hash.json).
A tree with another hash makes every check that has bounded native enumerations run them even when all proof obligations
pass ("soft watch": code the property depends on but no contract or watch names)."""
import glob, hashlib, json, os, subprocess
def tree_sha(repo):
    h = hashlib.sha256()
    for f in sorted(glob.glob(os.path.join(repo, "src", "**", "*.rs"), recursive=True)):
        h.update(os.path.relpath(f, repo).encode()); h.update(b"\0"); h.update(open(f, "rb").read()); h.update(b"\0")
    return h.hexdigest()[:16]
if __name__ == "__main__":
    commit = subprocess.run(["git", "-C", "/repo", "rev-parse", "--short", "HEAD"], capture_output=True, text=True).stdout.strip()
    root = os.path.dirname(os.path.abspath(__file__))
    old = json.load(open(os.path.join(root, "tree_hash.json")))
    old.update({"src_sha": tree_sha("/repo"), "commit": commit})
    json.dump(old, open(os.path.join(root, "tree_hash.json"), "w"), indent=1)
    print(old)
