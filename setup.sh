#!/bin/sh
# Offline setup: nothing to fetch. Creates build dirs; warms the Kani dependency build if harnesses exist.
set -e
cd "$(dirname "$0")"
mkdir -p build evidence
python3 -c "import sys; sys.path.insert(0,'vx'); import rustscan, weave, verus_run" 
if [ -f kani/kani_warm.sh ]; then sh kani/kani_warm.sh || true; fi
exit 0
