#!/bin/sh
# tools_seed_verify.sh <Cxx> <seed-worktree> : confirm a seeded change independently:
#  (1) existing suite passes with the change, (2) demo fails with it, (3) demo passes without it.
set -u
P=$1; W=$2
export CARGO_TARGET_DIR=$W/target
cd $W || exit 2
git diff --stat -- src | tail -1
mkdir -p /tmp/seedv && mv tests/seed_demo.rs /tmp/seedv/seed_demo_$P.rs 2>/dev/null
echo "== suite with change"; cargo test --workspace --offline 2>&1 | grep -E "^test result|FAILED|panicked" | sort | uniq -c
mv /tmp/seedv/seed_demo_$P.rs tests/seed_demo.rs
echo "== demo with change";  cargo test --offline --test seed_demo 2>&1 | grep -E "^test result|FAILED|panicked" | head -5
git apply -R patch.diff || { echo "cannot reverse patch"; exit 2; }
echo "== demo without change"; cargo test --offline --test seed_demo 2>&1 | grep -E "^test result|FAILED|panicked" | head -5
git apply patch.diff
