#!/usr/bin/env python3
"""tools_watch_add.py <unit> <repo file> <selector> [...more selectors]: print //@watch lines (with the current hash) for
functions that are not under contract. Development helper; the lines are pasted into the unit by hand."""
import hashlib, sys, os
sys.path.insert(0, os.path.join(os.path.dirname(os.path.abspath(__file__)), "vx"))
from rustscan import Source
relf = sys.argv[2]
src = Source(relf, open(os.path.join("/repo", relf)).read())
for sel in sys.argv[3:]:
    s, e = src.locate(sel)
    h = hashlib.sha256(" ".join(src.text[s:e].split()).encode()).hexdigest()[:16]
    print("//@watch %s :: %s %s" % (relf, sel, h))
