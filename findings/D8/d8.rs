// D8 (C05): a program whose target type has zero width but is not the unit type.
// Before the fix (commit "fix: return the target type's own value for zero-width outputs ..."),
// BitMachine::exec returned `ε : 1` for `pair unit unit : 1 -> 1 * 1`; the semantics give `(ε, ε) : 1 * 1`.
// Append to the end of src/lib.rs and run `cargo test --offline --lib d8_`.
#[cfg(test)]
mod d8_zero_width_output {
    use crate::jet::CoreEnv;
    use crate::node::{ConstructNode, CoreConstructible};
    use crate::{types, BitMachine, Value};
    use std::sync::Arc;

    #[test]
    fn d8_pair_unit_unit_returns_a_pair() {
        types::Context::with_context(|ctx| {
            let u = Arc::<ConstructNode>::unit(&ctx);
            let p = Arc::<ConstructNode>::pair(&u, &u).unwrap();
            let prog = p.finalize_unpruned().unwrap();
            let mut mac = BitMachine::for_program(&prog).unwrap();
            let out = mac.exec(&prog, &CoreEnv::new()).unwrap();
            assert!(out.is_of_type(&prog.arrow().target), "output {} : {} is not of the target type {}", out, out.ty(), prog.arrow().target);
            assert_eq!(out, Value::product(Value::unit(), Value::unit()));
        });
    }
}
