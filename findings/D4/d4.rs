// D4 reproducer (property C16): canonical sorting must not depend on the order of nested and/or children
use std::sync::Arc;
use simplicity::Policy;
use simplicity::elements::bitcoin::key::XOnlyPublicKey;

type P = Policy<XOnlyPublicKey>;

fn and(l: P, r: P) -> P { Policy::And { left: Arc::new(l), right: Arc::new(r) } }
fn or(l: P, r: P) -> P { Policy::Or { left: Arc::new(l), right: Arc::new(r) } }

fn main() {
    let a = and(or(Policy::After(1), Policy::After(2)), Policy::After(3)).sorted();
    let b = and(or(Policy::After(2), Policy::After(1)), Policy::After(3)).sorted();
    println!("a = {:?}\nb = {:?}\nequal = {}", a, b, a == b);
    if a != b { println!("VIOLATED"); std::process::exit(1); }
    println!("ok");
}
