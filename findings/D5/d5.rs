// D5 reproducer (property C12): a witness value of the wrong type given at construction time
use std::sync::Arc;
use simplicity::jet::Core;
use simplicity::node::{ConstructNode, CoreConstructible, JetConstructible, WitnessConstructible};
use simplicity::{types, BitIter, RedeemNode, Value};

fn main() {
    let r = types::Context::with_context(|ctx| {
        // witness : 1 -> 2^8 (forced by pairing it with Low8 into Eq8), but we attach a 16-bit value
        let wit = Arc::<ConstructNode>::witness(&ctx, Some(Value::u16(0xbeef)));
        let low8 = Arc::<ConstructNode>::jet(&ctx, &Core::Low8);
        let pair = Arc::<ConstructNode>::pair(&wit, &low8).unwrap();
        let eq8 = Arc::<ConstructNode>::jet(&ctx, &Core::Eq8);
        let cmp = Arc::<ConstructNode>::comp(&pair, &eq8).unwrap();
        let unit = Arc::<ConstructNode>::unit(&ctx);
        let prog = Arc::<ConstructNode>::comp(&cmp, &unit).unwrap();
        prog.finalize_unpruned()
    });
    match r {
        Err(e) => {
            println!("finalize_unpruned reported an error: {}", e);
            println!("ok");
        }
        Ok(redeem) => {
            println!("finalize_unpruned returned Ok");
            let mut bad = false;
            // every witness must have its node's target type
            for data in simplicity::dag::DagLike::post_order_iter::<simplicity::dag::InternalSharing>(redeem.as_ref()) {
                if let simplicity::node::Inner::Witness(v) = data.node.inner() {
                    let ok = v.is_of_type(&data.node.arrow().target);
                    println!("witness {} : is_of_type(target {}) = {}", v, data.node.arrow().target, ok);
                    bad |= !ok;
                }
            }
            // its own serialisation must decode
            let (p, w) = redeem.to_vec_with_witness();
            let dec = RedeemNode::decode::<_, _, Core>(BitIter::from(p), BitIter::from(w));
            println!("re-decode of own serialisation: {}", if dec.is_ok() { "ok".to_string() } else { format!("{}", dec.err().unwrap()) });
            if bad { println!("VIOLATED"); std::process::exit(1); }
            println!("ok");
        }
    }
}
