// D1/D2 reproducer (property C11): semantically equal values must compare equal and hash equally
use simplicity::types::Final;
use simplicity::{BitIter, Value};
use std::collections::hash_map::DefaultHasher;
use std::hash::{Hash, Hasher};

fn h(v: &Value) -> u64 {
    let mut s = DefaultHasher::new();
    v.hash(&mut s);
    s.finish()
}

fn main() {
    let mut bad = 0;
    // D1: a sub-value extracted from a product shares the parent's buffer; the bits after its width differ
    let prod = Value::product(Value::u4(6), Value::u4(7));
    let left = prod.as_product().unwrap().0.to_value();
    let six = Value::u4(6);
    println!("D1: extracted {} vs constructed {}: eq={} hash_eq={} cmp={:?}", left, six, left == six, h(&left) == h(&six), left.cmp(&six));
    if left != six || h(&left) != h(&six) || left.cmp(&six) != std::cmp::Ordering::Equal { bad += 1; }
    // D2: the same element of 1 + 2^8 built by the constructor vs decoded from padded bits with dirty padding
    let ty = Final::sum(Final::unit(), Final::u8());
    let a = Value::left(Value::unit(), Final::u8());
    let bytes = [0x7fu8, 0xff];
    let mut it = BitIter::from(&bytes[..]);
    let b = Value::from_padded_bits(&mut it, &ty).unwrap();
    println!("D2: constructed {} vs decoded {}: eq={} hash_eq={} cmp={:?}", a, b, a == b, h(&a) == h(&b), a.cmp(&b));
    if a != b || h(&a) != h(&b) || a.cmp(&b) != std::cmp::Ordering::Equal { bad += 1; }
    if bad > 0 { println!("VIOLATED ({} cases)", bad); std::process::exit(1); }
    println!("ok");
}
