// D9 (C02 / C10): decoding a one-bit witness can ask for a 2^61-byte allocation.
// A type's bit width saturates at usize::MAX (64 nested `pair x x` of a bit are enough). For a witness node of type
// `1 + T` with T saturated, the compact value `L(())` is the single bit 0; `Value::from_compact_bits` builds it with
// `Value::left(unit, T)`, which pads to the width of the wider branch: `vec![0; usize::MAX.div_ceil(8)]`.
// Appended as `#[cfg(test)] mod d9` to src/lib.rs of the unchanged tree; run with `cargo test --lib d9 -- --nocapture`.
// The allocation is attempted in a child process, because a failed allocation aborts the process.
#[cfg(test)]
mod d9 {
    use crate::jet::Core;
    use crate::node::{ConstructNode, CoreConstructible, WitnessConstructible};
    use crate::types;
    use crate::{BitIter, RedeemNode, Value, Word};
    use std::sync::Arc;

    type N<'b> = Arc<ConstructNode<'b>>;

    /// program bytes and witness bytes of:  main : 1 -> 1  with one witness node of type 1 + T, T of saturated width
    fn build() -> (Vec<u8>, Vec<u8>) {
        types::Context::with_context(|ctx| {
            // x : 1 -> T,  T = 2^(2^64), width saturated
            let mut x: N = N::const_word(&ctx, Word::u1(1));
            for _ in 0..64 {
                x = N::pair(&x, &x).unwrap();
            }
            let k1 = N::comp(&x, &N::injr(&N::iden(&ctx))).unwrap(); // 1 -> Y + T
            let k2 = N::comp(&N::unit(&ctx), &N::injl(&N::iden(&ctx))).unwrap(); // 1 -> 1 + Z
            let w = N::witness(&ctx, Some(Value::unit())); // placeholder value, replaced below
            let i2 = N::iden(&ctx);
            let same2 = N::pair(&N::take(&i2), &N::drop_(&i2)).unwrap(); // A x A -> A x A
            let i3 = N::iden(&ctx);
            let same3 = N::pair(&N::take(&i3), &N::drop_(&i3)).unwrap();
            let a = N::comp(&N::pair(&k1, &k2).unwrap(), &same2).unwrap(); // forces Y + T == 1 + Z
            let b = N::comp(&N::pair(&k1, &w).unwrap(), &same3).unwrap(); // forces type(w) == Y + T
            let main = N::comp(&N::pair(&a, &b).unwrap(), &N::unit(&ctx)).unwrap();
            let commit = main.finalize_types().expect("types");
            let prog = commit.to_vec_without_witness();
            (prog, vec![0x00]) // the witness stream: one bit 0 = L(()), then padding
        })
    }

    #[test]
    fn d9_child() {
        // only meaningful when spawned by d9 below
        if std::env::var("D9_CHILD").is_err() {
            return;
        }
        let (prog, wit) = build();
        let r = RedeemNode::decode::<_, _, Core>(BitIter::from(prog.iter().copied()), BitIter::from(wit.iter().copied()));
        println!("D9 child: decode returned {:?}", r.map(|_| "Ok").map_err(|e| e.to_string()));
    }

    #[test]
    fn d9() {
        let (prog, wit) = build();
        println!("program: {} bytes, witness: {} byte(s)", prog.len(), wit.len());
        let exe = std::env::current_exe().unwrap();
        let out = std::process::Command::new(exe)
            .args(["--exact", "d9::d9_child", "--nocapture", "--test-threads", "1"])
            .env("D9_CHILD", "1")
            .output()
            .unwrap();
        let text = format!("{}{}", String::from_utf8_lossy(&out.stdout), String::from_utf8_lossy(&out.stderr));
        println!("child exit status: {:?}\n{}", out.status, text.lines().filter(|l| l.contains("D9") || l.contains("alloc") || l.contains("panicked") || l.contains("capacity")).collect::<Vec<_>>().join("\n"));
        assert!(out.status.success(), "RedeemNode::decode did not return: the decoder aborted / panicked on a {}-byte program and a 1-byte witness", prog.len());
    }
}
