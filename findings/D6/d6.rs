// D6 reproducer: a comp whose middle type is 2^64 bits wide (saturated to usize::MAX).
use std::sync::Arc;
use simplicity::jet::Core;
use simplicity::node::{ConstructNode, CoreConstructible, JetConstructible};
use simplicity::types;
use simplicity::BitMachine;

fn main() {
    types::Context::with_context(|ctx| {
        // bomb: 1 -> 2^(8 * 2^61): Low8 paired with itself 61 times
        let mut bomb = Arc::<ConstructNode>::jet(&ctx, &Core::Low8);
        for _ in 0..61 {
            bomb = Arc::<ConstructNode>::pair(&bomb, &bomb).unwrap();
        }
        // right: (huge) -> 1, with a small extra_cells of its own (comp(unit, Low8) needs 8? no: mid = 1 -> 0 cells)
        let unit = Arc::<ConstructNode>::unit(&ctx);
        let low8 = Arc::<ConstructNode>::jet(&ctx, &Core::Low8);
        let inner = Arc::<ConstructNode>::comp(&unit, &low8).unwrap(); // huge -> 2^8, mid type 1
        let unit2 = Arc::<ConstructNode>::unit(&ctx);
        let right = Arc::<ConstructNode>::comp(&inner, &unit2).unwrap(); // mid 2^8: extra_cells 8
        let prog = Arc::<ConstructNode>::comp(&bomb, &right).unwrap(); // 1 -> 1, mid = 2^64 bits
        let redeem = prog.finalize_unpruned().expect("finalize");
        println!("bounds: {:?}", redeem.bounds());
        match BitMachine::for_program(&redeem) {
            Ok(_) => println!("for_program: ACCEPTED (machine sized from wrapped bound)"),
            Err(e) => println!("for_program: refused: {}", e),
        }
    });
}
