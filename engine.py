"""Orchestration: units -> Verus -> obligations -> verdict/evidence/replay files."""
import hashlib
import json
import os
import re
import subprocess
import sys
import time

ROOT = os.path.dirname(os.path.abspath(__file__))
sys.path.insert(0, os.path.join(ROOT, "vx"))

import verus_run as vr  # noqa: E402
from verus_run import Undecided  # noqa: E402
from props import PROPS  # noqa: E402

BUILD = os.path.join(ROOT, "build")
EVID = os.path.join(ROOT, "evidence")


def _load_json(path, default):
    try:
        return json.load(open(path))
    except Exception:
        return default


def known_findings():
    return _load_json(os.path.join(ROOT, "known_findings.json"), {"findings": [], "fixed": []})


def _finding_for(prop, unit, fn, err_text):
    for f in known_findings().get("findings", []):
        if f.get("property") != prop:
            continue
        if unit == "kani" and fn in f.get("kani_harnesses", []):
            # the Kani harness that exhibits this finding fails by design while the finding exists
            return f
        if f.get("unit") != unit or f.get("function") != fn:
            continue
        cc = f.get("clause_contains")
        if cc and cc not in err_text:
            continue
        return f
    return None


def _cached_verus(src, text, **kw):
    """Verus is deterministic for a given input text and flags: results for an identical generated file are
    reused (the file itself is always regenerated from /repo's working tree first)."""
    key = hashlib.sha256((text + json.dumps(kw, sort_keys=True)).encode()).hexdigest()
    cdir = os.path.join(BUILD, "cache")
    os.makedirs(cdir, exist_ok=True)
    cp = os.path.join(cdir, key + ".json")
    if os.path.exists(cp) and not os.environ.get("VERIF_NO_CACHE"):
        c = json.load(open(cp))
        class P:  # minimal stand-in for the CompletedProcess
            stderr = c["stderr"]
        return c["js"], c["diags"], c["wall"], c["cmd"] + "   (result reused: identical generated file)", P
    js, diags, wall, cmd, proc = vr.run_verus(src, **kw)
    json.dump({"js": js, "diags": diags, "wall": wall, "cmd": cmd, "stderr": (proc.stderr or "")[-4000:]}, open(cp, "w"))
    return js, diags, wall, cmd, proc


def run_unit(unit, repo, tier, vacuity=True, _retry=False):
    os.makedirs(BUILD, exist_ok=True)
    text, linemap, log, extracted = vr.build_unit(unit, repo, ROOT)
    src = os.path.join(BUILD, unit + ".rs")
    open(src, "w").write(text)
    json.dump({"linemap": linemap, "log": log, "extracted": extracted}, open(os.path.join(BUILD, unit + ".map.json"), "w"), indent=1)
    trusted = vr.scan_trusted(text)
    allowed = _load_json(os.path.join(ROOT, "units", unit, "trusted.json"), None)
    if allowed is not None:
        extra = [t for t in trusted if t not in allowed["allowed"]]
        if extra:
            raise Undecided("unit %s: trusted constructs not on the whitelist: %s" % (unit, extra))
    js, diags, wall, cmd, proc = _cached_verus(src, text, rlimit=60 if tier == "thorough" else 40)
    funcs, errors, hard, vres = vr.analyse(js, diags, linemap, unit)
    undecided_fns = {}
    if hard and all(h.get("rlimit") for h in hard):
        # resource limit hit: a function that ALSO has a definite failure is decided (failed); the others
        # are retried once with a much larger limit and a single-error search
        for e in errors:
            e["fn"] = vr.enclosing_fn(text, e["line"])
        definite = set(e["fn"] for e in errors)
        pending = set(vr.enclosing_fn(text, h["line"]) for h in hard) - definite
        if pending:
            js2, diags2, wall2, cmd2, proc2 = vr.run_verus(src, rlimit=400, multiple_errors=1, timeout=3000)
            funcs2, errors2, hard2, vres2 = vr.analyse(js2, diags2, linemap, unit)
            wall += wall2
            if hard2 and not all(h.get("rlimit") for h in hard2):
                raise Undecided("unit %s: verus front-end error: %s" % (unit, hard2[0]["message"]))
            for e in errors2:
                e["fn"] = vr.enclosing_fn(text, e["line"])
            have = set((e["fn"], e["message"], e["text"]) for e in errors)
            for e in errors2:
                if e["fn"] in pending and (e["fn"], e["message"], e["text"]) not in have:
                    errors.append(e)
            for h in hard2:
                fn = vr.enclosing_fn(text, h["line"])
                if fn in pending and fn not in set(e["fn"] for e in errors2):
                    undecided_fns[fn] = h["message"]
            for n_, f_ in funcs2.items():
                if n_.split("::")[-1] in pending and n_ in funcs:
                    funcs[n_]["success"] = f_["success"] and n_.split("::")[-1] not in undecided_fns
        hard = []
    if hard and not _retry:
        # front-end rejection (type error, unsupported construct) inside extracted functions: leave exactly those
        # functions out (contract assumed, run undecided for them) and decide the rest
        import weave as _weave
        culprits = {}
        for h in hard:
            fn_ = vr.enclosing_fn(text, h["line"]) if h.get("line") else "?"
            cands = [x["name"] for x in extracted if x["name"].split("::")[-1].split("<")[0] == fn_ and not x.get("external_body")]
            if len(cands) != 1:
                culprits = None
                break
            culprits[cands[0]] = "rejected by the verifier's front end: %s @ %s" % (h["message"][:200], h["text"][:120])
        if culprits:
            _weave.set_force_degrade(culprits)
            try:
                return run_unit(unit, repo, tier, vacuity=vacuity, _retry=True)
            finally:
                _weave.set_force_degrade(None)
    if hard:
        raise Undecided("unit %s: verus front-end/resource error: %s" % (unit, hard[0]["message"] + " @ " + hard[0]["text"][:200]))
    if not vres or (not funcs):
        raise Undecided("unit %s: verus reported no obligations (%s)" % (unit, (proc.stderr or "")[-500:]))
    for e in errors:
        e["fn"] = vr.enclosing_fn(text, e["line"])
    res = {"unit": unit, "src": src, "funcs": funcs, "errors": errors, "wall_s": wall, "cmd": cmd,
           "verus_verified": vres.get("verified"), "verus_errors": vres.get("errors"), "trusted": trusted,
           "log": log, "extracted": extracted, "text": text, "vacuity": None, "undecided_fns": undecided_fns,
           "degraded": {x["name"]: x["degraded"] for x in extracted if x.get("degraded")},
           "smt_ms": js.get("times-ms", {}).get("smt", {}).get("smt-run"), "verus_version": js.get("verus", {}).get("version")}
    if vacuity:
        vtext, _, _, _ = vr.build_unit(unit, repo, ROOT, vacuity=True)
        vlines = vtext.split("\n")
        probes = []
        for ln, l in enumerate(vlines):
            for m2 in re.finditer(r"/\*VACUITY-PROBE (.*?) @ (.*?)\*/", l):
                probes.append({"id": len(probes), "fn": m2.group(1), "where": m2.group(2), "line": ln + 1})
        vsrc = os.path.join(BUILD, unit + "_vacuity.rs")
        open(vsrc, "w").write(vtext)
        js2, diags2, wall2, cmd2, proc2 = _cached_verus(vsrc, vtext, rlimit=40, multiple_errors=200)
        _, _, hard2, vres2 = vr.analyse(js2, diags2, [], unit + "_vacuity")
        if hard2 or not vres2:
            raise Undecided("unit %s: vacuity run failed: %s" % (unit, (hard2[0]["message"] if hard2 else (proc2.stderr or "")[-400:])))
        hit_lines = set()
        for d in diags2:
            if d.get("level") == "error" and "assertion failed" in d.get("message", ""):
                for s_ in d.get("spans", []):
                    hit_lines.add(s_["line_start"])
        hit = set(p["id"] for p in probes if p["line"] in hit_lines)
        missing = [p for p in probes if p["id"] not in hit]
        res["vacuity"] = {"probes": len(probes), "refuted": len(probes) - len(missing), "wall_s": wall2,
                          "unreached_or_vacuous": missing}
        res["wall_s"] += wall2
    return res


def _sha(s):
    return hashlib.sha256(s.encode()).hexdigest()[:16]


def check(prop, tier, seed, repo, vacuity=True, update_baseline=False):
    import fcntl
    os.makedirs(BUILD, exist_ok=True)
    lock = open(os.path.join(BUILD, ".lock"), "w")
    fcntl.flock(lock, fcntl.LOCK_EX)  # checks share build/ (kani-src, unit files): one at a time
    try:
        return _check(prop, tier, seed, repo, vacuity, update_baseline)
    finally:
        fcntl.flock(lock, fcntl.LOCK_UN)


def _check(prop, tier, seed, repo, vacuity=True, update_baseline=False):
    t0 = time.time()
    if prop not in PROPS:
        print("property %s is not claimed by this framework (see MANIFEST.not_applicable)" % prop)
        return 2
    cfg = PROPS[prop]
    os.makedirs(EVID, exist_ok=True)
    os.makedirs(os.path.join(BUILD, "replay"), exist_ok=True)
    for f in os.listdir(os.path.join(BUILD, "replay")):
        if f.startswith(prop + "-"):
            os.remove(os.path.join(BUILD, "replay", f))
    results, undecided = [], []
    fallback_wanted = []  # (reason, [harness names])
    units_ = cfg.get("units", [])
    futures = {}
    if len(units_) > 1 and cfg.get("parallel_units"):
        from concurrent.futures import ThreadPoolExecutor
        pool = ThreadPoolExecutor(max_workers=len(units_))
        futures = {u: pool.submit(run_unit, u, repo, tier, vacuity) for u in units_}
    for unit in units_:
        try:
            r_ = futures[unit].result() if unit in futures else run_unit(unit, repo, tier, vacuity=vacuity)
            results.append(r_)
            only_ = cfg.get("functions", {}).get(unit)
            excl_ = set(cfg.get("exclude_functions", {}).get(unit, []))
            for fn_, why in r_["degraded"].items():
                short_ = fn_.split("<")[0]
                if (only_ is not None and fn_ not in only_ and short_ not in only_) or fn_ in excl_:
                    # a function of a shared unit that this property's obligations do not include
                    continue
                undecided.append("unit %s: %s could not be woven (%s): its contract is only ASSUMED in this run" % (unit, fn_, why))
                fallback_wanted.append((fn_, cfg.get("fallback", {}).get(fn_, [])))
        except Undecided as e:
            undecided.append(str(e))
            fb = sorted(set(h for k, hs in cfg.get("fallback", {}).items() for h in hs if cfg.get("fallback_unit", {}).get(k, unit) == unit))
            fallback_wanted.append(("unit " + unit, fb))
    # property-level watches: functions the property depends on that no unit puts under contract
    for relf_, sel_, want_ in cfg.get("watch", []):
        import weave as _weave
        msg_ = _weave.watch_status(repo, relf_, sel_, want_)
        if msg_:
            undecided.append(msg_)
    # Kani harnesses
    kres = None
    kh = cfg.get("kani", {})
    names = list(kh.get("quick", [])) + (list(kh.get("thorough", [])) if tier == "thorough" else [])
    # fallback: an obligation Verus could not be given (rewritten body, unsupported construct) is handed to the
    # Kani harnesses attached to it; they can only ADD a violation (with a concrete counterexample), never clear one
    fb_names = sorted(set(h for _, hs in fallback_wanted for h in hs if h not in names))
    if fb_names:
        names = names + fb_names
    if names and (not os.environ.get("VERIF_SKIP_KANI") or fb_names):
        import kani_run
        try:
            kres = kani_run.run_harnesses(names, repo, tier)
        except Undecided as e:
            undecided.append(str(e))

    obligations, discharged = 0, 0
    violations, known, samples, fn_list = [], [], [], []
    trusted, rewrites, solver_ms = [], [], 0
    verus_total, kani_total = 0, 0
    for r in results:
        unit = r["unit"]
        basefile = os.path.join(ROOT, "units", unit, "baseline.json")
        only = cfg.get("functions", {}).get(unit)
        excl = set(cfg.get("exclude_functions", {}).get(unit, []))
        pins_ = set(cfg.get("pin_functions", {}).get(unit, []))
        if update_baseline:
            json.dump({"passing": sorted(n for n, f in r["funcs"].items() if f["success"])}, open(basefile, "w"), indent=1)
        baseline = set(_load_json(basefile, {"passing": []})["passing"])
        failed_fns = {}
        for e in r["errors"]:
            failed_fns.setdefault(e["fn"], []).append(e)
        for name, f in sorted(r["funcs"].items()):
            short = name.split("::")[-1]
            if only is not None and name not in only and short not in only:
                continue
            if name in excl:
                continue
            errs = failed_fns.get(short, []) + (failed_fns.get(name, []) if name != short else [])
            if f["success"]:
                obligations += 1
                discharged += 1
                verus_total += 1
                if len(samples) < 6 and f["mode"] == "exec":
                    samples.append({"unit": unit, "obligation": name, "mode": f["mode"], "smt_time_ms": round(f["time_us"] / 1000, 1), "result": "discharged by Verus/Z3"})
                continue
            # a "shape pin": the function's contract restates what the code builds today (e.g. the combinator tree of a
            # policy fragment); if it no longer holds, the spec the dependent obligations were written against is out of
            # date - that is not a violation of the property, the run is undecided and the bounded fallback decides
            if name in pins_:
                undecided.append("unit %s: %s no longer has the shape its contract pins (%s): obligations that rely on it are undecided"
                                 % (unit, name, (errs[0]["message"] if errs else "failed")))
                continue
            # failed function: each error is an obligation
            if short in r.get("undecided_fns", {}) and not errs:
                undecided.append("unit %s: obligation %s: %s (even at rlimit 400)" % (unit, name, r["undecided_fns"][short]))
                continue
            if not errs:
                errs = [{"message": "function failed (no diagnostic captured)", "text": "", "rendered": "", "line": 0, "fn": short}]
            unlisted = []
            for e in errs:
                kf = _finding_for(prop, unit, name, e["message"] + " " + e["text"] + " " + " ".join((l.get("text") or "") for l in e.get("labels", [])))
                if kf:
                    known.append((kf, e))
                else:
                    unlisted.append(e)
            if unlisted:
                obligations += 1
                if name in baseline or any(name.endswith(b) for b in baseline if "::" not in b and b == short):
                    violations.append({"unit": unit, "function": name, "errors": unlisted, "engine": "verus"})
                else:
                    undecided.append("unit %s: obligation %s fails but was never recorded as passing (not an alarm): %s" % (unit, name, unlisted[0]["message"]))
        # a baseline obligation that vanished = lost anchor
        for b in baseline:
            if b not in r["funcs"] and (only is None or b in only) and b not in excl:
                undecided.append("unit %s: baseline obligation %s no longer generated" % (unit, b))
        if r["vacuity"] and r["vacuity"]["unreached_or_vacuous"]:
            allowed = set(cfg.get("vacuity_unreachable_ok", []))
            bad = [p for p in r["vacuity"]["unreached_or_vacuous"] if "%s:%s" % (p["fn"], p["where"]) not in allowed]
            if bad:
                undecided.append("unit %s: vacuity probe(s) not refuted (contradictory contract or unreachable code): %s" % (unit, bad))
        trusted += ["[%s] %s" % (unit, t) for t in r["trusted"]]
        rewrites += r["log"]
        solver_ms += r["smt_ms"] or 0
        for x in r["extracted"]:
            if x["file"].endswith(".rs") and re.match(r"[A-Za-z]", x["name"]):
                fn_list.append({"unit": unit, "name": x["name"], "file": x["file"], "lines": [x["line_start"], x["line_end"]],
                                "sha256": x["sha256"][:16], "rewritten": x["rewritten"], "assumed_not_verified": x["external_body"]})
    kani_cov = None
    if kres:
        kani_cov = kres["summary"]
        for h in kres["harnesses"]:
            if h["kind"] == "complete":
                obligations += 1
                if h["status"] == "SUCCESS":
                    discharged += 1
                    kani_total += 1
                    if len(samples) < 8:
                        samples.append({"engine": "kani", "obligation": h["name"], "result": "VERIFICATION SUCCESSFUL", "time_s": h["time_s"]})
                elif h["status"] == "FAILURE":
                    kf = _finding_for(prop, "kani", h["name"], h.get("failed_checks", ""))
                    if kf:
                        known.append((kf, {"message": h.get("failed_checks", ""), "text": ""}))
                        obligations -= 1
                    else:
                        violations.append({"unit": "kani", "function": h["name"], "engine": "kani", "errors": [{"message": h.get("failed_checks", ""), "text": "", "rendered": h.get("tail", "")}], "cex": h.get("cex")})
                else:
                    undecided.append("kani harness %s: %s" % (h["name"], h["status"]))
            elif h["kind"].startswith("bounded") or h["kind"] in ("cex", "fallback"):
                if h["status"] == "FAILURE":
                    kf = _finding_for(prop, "kani", h["name"], h.get("failed_checks", ""))
                    if kf:
                        known.append((kf, {"message": h.get("failed_checks", ""), "text": ""}))
                    else:
                        violations.append({"unit": "kani", "function": h["name"], "engine": "kani-bounded", "errors": [{"message": h.get("failed_checks", ""), "text": "", "rendered": h.get("tail", "")}], "cex": h.get("cex")})
                elif h["status"] != "SUCCESS":
                    undecided.append("kani harness %s: %s" % (h["name"], h["status"]))
        trusted += kres.get("trusted", [])

    # native bounded fallback: when part of the property's code could not be given to the verifier in this run (lost
    # anchor, census mismatch, unsupported construct) and no violation has been established, the registered native
    # enumeration is run on the real code as a BOUNDED stand-in (never counted as proved). It can only ADD a violation
    # (with a concrete failing input); if it finds nothing the run stays undecided.
    native_fb = None
    run_native = None
    soft_watch = None
    if undecided and not violations and cfg.get("native_fallback"):
        run_native = cfg["native_fallback"]
    elif tier != "thorough" and not violations and cfg.get("native_fallback") and _tree_changed(repo):
        # SOFT WATCH: the tree differs from the one the contracts and watches were written against and nothing failed.
        # The change may sit in code the property depends on but that no contract or watch names (the interpreter's
        # helpers, a tracker, another instantiation of a generic function): the bounded enumerations run as well. They can
        # only ADD a violation (with a concrete input); if they pass the verdict stays what the obligations gave.
        run_native = cfg["native_fallback"]
        soft_watch = "tree differs from tree_hash.json: bounded enumerations run although every obligation passed"
    elif tier == "thorough" and not violations and cfg.get("native_thorough"):
        # thorough tier: the bounded enumeration also runs as a (labelled) bounded check of the clauses no contract covers
        run_native = cfg["native_thorough"]
    for test in ([run_native] if isinstance(run_native, str) else (run_native or [])):
        try:
            import native_run
            cexn = native_run.find_cex(test, repo, deep=(tier == "thorough"))
            _NATIVE_CACHE[test] = cexn
            one = {"test": test, "bound": native_run.BOUNDS.get(test, "") + (" [thorough tier: the larger family, see DEEP_BOUNDS]" if tier == "thorough" and test in native_run.DEEP_BOUNDS else ""), "status": "FAILS" if cexn else "no failing input in the enumerated family"}
            if cexn:
                violations.append({"unit": "native", "function": test, "engine": "native-bounded",
                                   "errors": [{"message": "bounded native enumeration found failing inputs (run because: %s)" % (undecided[0][:300] if undecided else "thorough tier"), "text": "; ".join(cexn["failing_inputs"][:3]),
                                               "rendered": "\n".join(cexn["failing_inputs"])}], "cex": cexn})
        except Exception as e:  # noqa
            one = {"test": test, "status": "could not run: %s" % e}
        if native_fb is None:
            native_fb = one
        else:
            native_fb = {"test": native_fb["test"] + " + " + one["test"], "bound": native_fb.get("bound", "") + " || " + one.get("bound", ""),
                         "status": native_fb["status"] + " || " + one["status"]}

    # known findings: each listed finding must still be observed? No: a fixed defect simply stops appearing.
    printed = set()
    for kf, e in known:
        key = kf.get("id") or kf.get("what")
        if key in printed:
            continue
        printed.add(key)
        print("KNOWN-FINDING: property=%s %s" % (prop, kf.get("what", "")))

    # replay files + verdict
    rc = 0
    for i, v in enumerate(violations):
        path = os.path.join(BUILD, "replay", "%s-%s-%d.json" % (prop, re.sub(r"[^A-Za-z0-9_]+", "_", v["function"]), i))
        cex = v.get("cex")
        if cex is None and v["engine"] == "verus":
            cex = _try_cex(prop, cfg, v, repo)
        rep = {"property": prop, "obligation": {"unit": v["unit"], "function": v["function"],
               "clauses": [{"message": e["message"], "clause": e.get("text", ""), "labels": e.get("labels", [])} for e in v["errors"]]},
               "engine": v["engine"], "verifier_output": "\n".join(e.get("rendered", "") for e in v["errors"])[:20000],
               "counterexample": cex, "replay_cmd": "./check %s --replay %s" % (prop, path),
               "note": None if cex else "no-failing-input-found"}
        json.dump(rep, open(path, "w"), indent=1)
        print("VIOLATION property=%s replay=%s%s" % (prop, path, "" if cex else " no-failing-input-found"))
        rc = 1
    wall = time.time() - t0
    ev = {
        "property_id": prop, "tier": tier, "seed": seed, "level": cfg.get("level", "proof"),
        "coverage": {
            "obligations": obligations, "discharged": discharged,
            "checker_cmd": "; ".join(r["cmd"] for r in results) + ("; " + kres["cmd"] if kres else ""),
            "trusted_base": sorted(set(trusted)) + cfg.get("trusted_extra", []),
            "backends": {"verus_z3": verus_total, "kani_cbmc_complete": kani_total},
            "bounded": (kres or {}).get("bounded", []),
            "functions_under_contract": fn_list,
            "extraction_rules_applied": _rule_summary(rewrites),
            "extraction_rewrites": [{k: (v[:160] if isinstance(v, str) else v) for k, v in l.items()} for l in rewrites][:200],
            "solver_time_ms": solver_ms,
            "verus_units": [{"unit": r["unit"], "verus_verified_count": r["verus_verified"], "function_queries": len(r["funcs"]),
                             "wall_s": round(r["wall_s"], 2), "vacuity": {k: v for k, v in (r["vacuity"] or {}).items() if k != "wall_s"}} for r in results],
            "kani": kani_cov,
            "samples": samples,
            "known_findings_observed": [kf.get("what") for kf, _ in known],
            "undecided": undecided,
            "native_bounded_fallback": native_fb,
            "soft_watch": soft_watch,
            "explanation": cfg.get("explanation", ""),
            "clauses_not_decided": cfg.get("not_decided", []),
            # functions the property depends on that are NOT under contract: their text is pinned by a hash; a change makes
            # the run undecided and hands over to the bounded stand-in (unit-level watches are in extraction_rewrites, rule "watch")
            "watched_not_under_contract": [{"file": f_, "selector": sel_, "recorded_sha": sha_} for f_, sel_, sha_ in cfg.get("watch", [])],
            # contracts that restate the shape the code builds today: failing ones make the run undecided, not a violation
            "shape_pins": cfg.get("pin_functions", {}),
        },
        "assumptions": cfg.get("assumptions", []),
        "wall_s": round(wall, 2),
        "violations": len(violations),
    }
    # evidence of runs against a tree other than /repo (mutants, scratch worktrees) never overwrites the record
    evdir = os.environ.get("VERIF_EVIDENCE_DIR") or (EVID if os.path.realpath(repo) == "/repo" else os.path.join(BUILD, "evidence-other"))
    os.makedirs(evdir, exist_ok=True)
    json.dump(ev, open(os.path.join(evdir, prop + ".json"), "w"), indent=1)
    if rc == 1:
        return 1
    if undecided:
        for u in undecided:
            print("UNDECIDED: " + u)
        return 2
    print("OK property=%s obligations=%d discharged=%d (verus %d, kani %d) wall=%.1fs" % (prop, obligations, discharged, verus_total, kani_total, wall))
    return 0


def _rule_summary(log):
    s = {}
    for l in log:
        s[l["rule"]] = s.get(l["rule"], 0) + 1
    return s


_NATIVE_CACHE = {}


def _tree_changed(repo):
    """does repo/src differ from the tree recorded in tree_hash.json?"""
    try:
        import glob as _glob
        want = json.load(open(os.path.join(ROOT, "tree_hash.json")))["src_sha"]
        h = hashlib.sha256()
        for f in sorted(_glob.glob(os.path.join(repo, "src", "**", "*.rs"), recursive=True)):
            h.update(os.path.relpath(f, repo).encode()); h.update(b"\0"); h.update(open(f, "rb").read()); h.update(b"\0")
        return h.hexdigest()[:16] != want
    except Exception:  # noqa
        return False


def _try_cex(prop, cfg, v, repo):
    """look for a Kani cex harness attached to the failed obligation"""
    h = cfg.get("cex", {}).get(v["function"]) or cfg.get("cex", {}).get(v["function"].split("::")[-1])
    if not h and cfg.get("native_cex"):
        # a native oracle on the real code (run once per check, only now that an obligation has failed)
        test = cfg["native_cex"]
        if isinstance(test, dict):
            test = test.get(v["function"]) or test.get(v["function"].split("::")[0] + "::*") or test.get("*")
            if not test:
                return None
        if test not in _NATIVE_CACHE:
            try:
                import native_run
                _NATIVE_CACHE[test] = native_run.find_cex(test, repo)
            except Exception as e:  # noqa
                _NATIVE_CACHE[test] = None
        return _NATIVE_CACHE[test]
    if not h:
        return None
    try:
        import kani_run
        return kani_run.find_cex(h, repo)
    except Exception as e:  # noqa
        return None


def replay(prop, path, repo):
    rep = json.load(open(path))
    print(json.dumps(rep["obligation"], indent=1))
    cex = rep.get("counterexample")
    if not cex:
        print("no concrete input recorded (no-failing-input-found); verifier output follows:\n" + rep.get("verifier_output", ""))
        return 1
    if cex.get("engine") == "native":
        import native_run
        return native_run.replay_cex(cex, repo)
    import kani_run
    return kani_run.replay_cex(cex, repo)
