#!/bin/sh
# tools_seed_confirm.sh <worktree> [file-to-append-demo-to, default src/lib.rs]
# Independent confirmation of a seeded change: (1) the existing suite passes with it, (2) the demo fails with it,
# (3) the demo passes without it. Leaves the worktree with the change applied and no demo.
W=$1; F=${2:-src/lib.rs}
cd "$W" || exit 2
export CARGO_TARGET_DIR=$W/target CARGO_NET_OFFLINE=true
git diff --stat | tail -1
echo "== suite with change"; cargo test --workspace --offline 2>&1 | grep -E "^test result|FAILED|panicked" | sort | uniq -c
cp "$F" /tmp/seed_confirm_backup.rs
cat seed_demo.rs >> "$F"
echo "== demo with change"; cargo test --offline --lib seed_demo 2>&1 | grep -E "^test result|FAILED" | head -6
cp /tmp/seed_confirm_backup.rs "$F"
git apply -R patch.diff || { echo "cannot reverse patch"; exit 2; }
cp "$F" /tmp/seed_confirm_backup2.rs
cat seed_demo.rs >> "$F"
echo "== demo without change"; cargo test --offline --lib seed_demo 2>&1 | grep -E "^test result|FAILED" | head -6
cp /tmp/seed_confirm_backup2.rs "$F"
git apply patch.diff
git status --short | grep -v "^??"
