#!/usr/bin/env python3
"""tools_harmless_run_targeted.py <dir with harmless_*.diff> ...: like tools_harmless_run.sh, but each behaviour-preserving patch
is run only against the properties whose units, watches or Kani harness attachments read a file the patch touches
(the other checks cannot be affected). A VIOLATION here is a FALSE ALARM; ok / undecided are acceptable."""
import glob, json, os, re, subprocess, sys
ROOT = os.path.dirname(os.path.abspath(__file__))
sys.path.insert(0, ROOT); sys.path.insert(0, os.path.join(ROOT, "vx")); sys.path.insert(0, os.path.join(ROOT, "kani"))
import props

def files_of_prop(p):
    cfg = props.PROPS[p]; fs = set()
    for u in cfg.get("units", []):
        txt = open(os.path.join(ROOT, "units", u, "unit.vx")).read()
        for m in re.finditer(r"//@(?:extract|watch|census\s+\d+|gen \w+|expand_decode_bits)\s+(\S+)", txt):
            fs.add(m.group(1))
        for m in re.finditer(r"//@template\s+(\S+)(.*)", txt):
            t = open(os.path.join(ROOT, m.group(1))).read()
            for kv in m.group(2).split():
                k, _, v = kv.partition("="); t = t.replace("{{%s}}" % k, v)
            for m2 in re.finditer(r"//@(?:extract|watch|census\s+\d+|gen \w+|expand_decode_bits)\s+(\S+)", t):
                fs.add(m2.group(1))
        for m in re.finditer(r"//@use\s+(\w+)", txt):
            fs |= files_of_unit(m.group(1))
    for f_, _, _ in cfg.get("watch", []):
        fs.add(f_)
    if os.environ.get("HARMLESS_WITH_KANI") and (cfg.get("kani", {}).get("quick") or cfg.get("kani", {}).get("thorough") or cfg.get("fallback") or cfg.get("cex")):
        # the Kani harnesses are attached to these files (slow: every touched file rebuilds the harness crate)
        import inject
        fs |= set(inject.ATTACH)
    return fs

def files_of_unit(u):
    txt = open(os.path.join(ROOT, "units", u, "unit.vx")).read()
    return set(m.group(1) for m in re.finditer(r"//@(?:extract|watch)\s+(\S+)", txt))

def touched(diff):
    return set(m.group(1) for m in re.finditer(r"^\+\+\+ b/(\S+)", open(diff).read(), re.M))

def matches(fs, t):
    import fnmatch
    return any(f == t for f in fs)  # census globs (src/**/*.rs) count constructs; a harmless edit does not change them

PF = {p: files_of_prop(p) for p in sorted(props.PROPS)}
if subprocess.run(["git", "-C", "/repo", "status", "--porcelain"], capture_output=True, text=True).stdout.strip():
    sys.exit("/repo is not clean")
for d in sys.argv[1:]:
    for f in sorted(glob.glob(os.path.join(os.path.abspath(d), "harmless_*.diff"))):
        ts = touched(f)
        todo = [p for p in PF if any(matches(PF[p], t) for t in ts)]
        if subprocess.run(["git", "-C", "/repo", "apply", f]).returncode != 0:
            print("%s/%s: DOES NOT APPLY" % (os.path.basename(os.path.dirname(f)), os.path.basename(f)), flush=True); continue
        line = "%s/%s [%s]:" % (os.path.basename(os.path.dirname(f)), os.path.basename(f), ",".join(sorted(ts)))
        try:
            for p in todo:
                out = subprocess.run([os.path.join(ROOT, "check"), p], capture_output=True, text=True, cwd=ROOT).stdout
                out = "\n".join(l for l in out.split("\n") if not l.startswith("KNOWN"))
                if re.search(r"^VIOLATION", out, re.M):
                    r = "VIOLATION(%s)" % re.search(r"replay/(\S+?)\.json", out).group(1)
                elif re.search(r"^UNDECIDED", out, re.M): r = "undecided"
                elif re.search(r"^OK", out, re.M): r = "ok"
                else: r = "?"
                line += " %s=%s" % (p, r)
        finally:
            subprocess.run(["git", "-C", "/repo", "checkout", "--", "."])
        print(line, flush=True)
