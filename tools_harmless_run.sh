#!/bin/sh
# tools_harmless_run.sh <dir with harmless_*.diff>: apply each behaviour-preserving refactoring to /repo, run every quick
# check, undo. A VIOLATION here is a FALSE ALARM (to be analysed); OK and UNDECIDED are acceptable outcomes.
cd "$(dirname "$0")" || exit 2
D=$1
if [ -n "$(git -C /repo status --porcelain)" ]; then echo "/repo is not clean"; exit 2; fi
for f in "$D"/harmless_*.diff; do
  [ -f "$f" ] || continue
  if ! git -C /repo apply "$f" 2>/dev/null; then echo "$(basename $f): DOES NOT APPLY"; continue; fi
  line="$(basename $D)/$(basename $f):"
  for p in $(python3 -c "import props; print(' '.join(sorted(props.PROPS)))"); do
    out=$(./check $p 2>&1 | grep -v '^KNOWN')
    if echo "$out" | grep -q '^VIOLATION'; then r="VIOLATION($(echo "$out" | grep '^VIOLATION' | head -1 | sed 's/.*replay=.*replay\///; s/\.json.*//'))";
    elif echo "$out" | grep -q '^UNDECIDED'; then r="undecided";
    elif echo "$out" | grep -q '^OK'; then r="ok"; else r="?"; fi
    line="$line $p=$r"
  done
  git -C /repo checkout -- .
  echo "$line"
done
