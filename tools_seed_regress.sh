#!/bin/sh
# Regression over the stored seeded changes: apply each seeded/<id>/patch.diff to /repo, run the property's quick check,
# undo the change. Prints one line per seed. /repo must be clean; nothing else may run checks meanwhile.
cd "$(dirname "$0")" || exit 2
if [ -n "$(git -C /repo status --porcelain)" ]; then echo "/repo is not clean"; exit 2; fi
for d in seeded/*/; do
  id=$(basename "$d"); prop=${id%%-*}
  if git -C /repo apply "$PWD/$d/patch.diff" 2>/dev/null; then
    out=$(./check "$prop" 2>&1 | grep -v '^KNOWN' | tail -2 | tr '\n' ' ' | cut -c1-200)
    rc=$?
    git -C /repo checkout -- .
    echo "$id :: $out"
  else
    echo "$id :: PATCH DOES NOT APPLY"
  fi
done
git -C /repo status --porcelain | head -3
