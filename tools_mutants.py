#!/usr/bin/env python3
"""Sensitivity self-test (development time / on demand): apply each small semantic edit in
mutants/<Cxx>.json to a scratch copy of /repo and require the mapped check to report a violation.
Never influences a verdict on /repo.   usage: tools_mutants.py [Cxx ...] [--kani]"""
import json, os, subprocess, sys, shutil, time
ROOT = os.path.dirname(os.path.abspath(__file__))
SCRATCH = "/root/scratch/mutant"

def run(prop, muts, only=None):
    out = []
    for m in muts:
        if only and m["id"] not in only:
            continue
        if os.path.exists(SCRATCH):
            shutil.rmtree(SCRATCH)
        os.makedirs(SCRATCH)
        subprocess.run(["rsync", "-a", "--exclude", "/target", "--exclude", ".git", "/repo/", SCRATCH + "/"], check=True)
        p = os.path.join(SCRATCH, m["file"])
        s = open(p).read()
        n = s.count(m["from"])
        if n != m.get("count", 1):
            out.append({"id": m["id"], "result": "BAD-MUTANT (pattern matched %d times)" % n})
            print(out[-1]); continue
        open(p, "w").write(s.replace(m["from"], m["to"]))
        t = time.time()
        args = [os.path.join(ROOT, "check"), prop, "--repo", SCRATCH, "--no-vacuity"]
        env = dict(os.environ)
        if not m.get("kani"):
            env["VERIF_SKIP_KANI"] = "1"
        r = subprocess.run(args, capture_output=True, text=True, cwd=ROOT, env=env)
        viol = [l for l in r.stdout.split("\n") if l.startswith("VIOLATION")]
        res = {"id": m["id"], "property": prop, "rc": r.returncode, "killed": r.returncode == 1, "violations": viol[:3], "wall_s": round(time.time() - t, 1)}
        if r.returncode != 1:
            res["stdout"] = r.stdout[-600:]
        out.append(res)
        print(json.dumps(res))
    shutil.rmtree(SCRATCH, ignore_errors=True)
    return out

if __name__ == "__main__":
    props = [a for a in sys.argv[1:] if not a.startswith("-")]
    files = sorted(f for f in os.listdir(os.path.join(ROOT, "mutants")) if f.endswith(".json") and f != "results.json")
    allres = {}
    for f in files:
        prop = f[:-5]
        if props and prop not in props:
            continue
        muts = json.load(open(os.path.join(ROOT, "mutants", f)))
        allres[prop] = run(prop, muts)
    k = sum(1 for p in allres.values() for r in p if r.get("killed"))
    n = sum(len(p) for p in allres.values())
    print("killed %d / %d" % (k, n))
    prev = {}
    rp = os.path.join(ROOT, "mutants", "results.json")
    if os.path.exists(rp):
        prev = json.load(open(rp))
    prev.update(allres)
    json.dump(prev, open(rp, "w"), indent=1)
