"""Native replay: run a #[cfg(test)] oracle on a verbatim copy of the working tree (only after a verifier has
reported a failed obligation; it supplies the concrete failing input for the replay file)."""
import os
import re
import subprocess

ROOT = os.path.dirname(os.path.abspath(__file__))
SRC = os.path.join(ROOT, "build", "native-src")
TARGET = os.path.join(ROOT, "build", "native-target")
ORACLES = {"c14_jet_codes_replay": "jets_native.rs", "c14_jet_names_replay": "jets_native.rs", "c16_policy_sort_replay": "policy_native.rs", "c16_policy_roots_replay": "policy_roots_native.rs", "c02_codec_replay": "codec_native.rs", "c09_cmr_replay": "cmr_native.rs", "c19_budget_replay": "budget_native.rs", "c11_value_order_replay": "value_native.rs", "c18_dag_replay": "dag_native.rs", "c05_machine_semantics_replay": "machine_native.rs", "c05_jet_semantics_replay": "jet_semantics_native.rs", "c13_natural_replay": "natural_native.rs"}


# oracles that need the library's debug assertions (built in the dev profile)
DEBUG_PROFILE = {"c05_machine_semantics_replay"}

BOUNDS = {
    "c02_codec_replay": "every byte string of <= 3 bytes and 1..40 0xff bytes + 2-byte tails as program (commit-time, expression and redeem-time decoders, Core jets; witnesses of <= 1 byte); "
                        "every combinator tree of depth <= 2 over iden/unit/witness/fail/word/jet leaves encoded and decoded again; the same with a hidden branch whose root equals the root of a real node of the same expression, and eight typed commitment-time programs of that kind (decoded program must have the same root, shape and bytes); six redemption programs with witnesses of types 1, 1x1, 2^8x2^8, (A+B)xC, 2^64x2^64 "
                        "round-tripped with every decoded witness checked against its node's target type",
    "c14_jet_codes_replay": "all 1267 jets, three continuations each; all 24-bit inputs per family",
    "c16_policy_roots_replay": "4105 policies: 10 leaves (trivial, unsatisfiable, after/older at and just past the environment's lock times, sha256 and key with and without preimage/signature), all and/or/threshold(1,2) nodes over pairs, single-child thresholds, a sample of 3-child thresholds with k = 0..3, and a sample of depth-2 combinations; one environment",
    "c16_policy_sort_replay": "all policies of nesting depth <= 2 over After(1..3) leaves (and/or/threshold incl. single-child and shared-Arc children): canonical, idempotent, and equal to the sorted form of the mirrored policy",
    "c14_jet_names_replay": "EXHAUSTIVE over the three jet tables (368 + 471 + 428 jets): Display then FromStr returns the jet, names are unique per family; every Core jet has an Elements namesake with the same source / target type and code '0' + the Core code",
    "c05_machine_semantics_replay": "programs over word/iden/unit/witness leaves (+ the eq_8 jet): every combinator to depth 2, composed pairwise (comp), under a word-selected case, shifted to an unaligned offset; disconnect with three left-branch shapes (incl. one returning the right branch's root); assertl/assertr and case-against-fail with the visible and the hidden side selected (expected failures); 2397 executions (incl. side-by-side compositions whose intermediate frames are reused, also fed with two concrete words so that cursors move), up to 6 input values each; debug assertions on",
    "c05_jet_semantics_replay": "22 families of arithmetic / logic / comparison jets at 8, 16, 32 and 64 bits, in the Core and in the Elements family (2 x 88 jets), on edge and pseudo-random operands (equal operands included), 7344 executions, against integer arithmetic",
    "c13_natural_replay": "numbers 1..=70000 and 2^p-2..2^p+2 for p <= 31 (encode, decode, bound); every 24-bit string (decode, re-encode)",
    "c18_dag_replay": "comp/pair DAGs of depth <= 3 over unit with every reuse/copy choice among the first 6 sub-DAGs per level, as commitment-time programs",
    "c11_value_order_replay": "about 2000 values of widths <= 24 bits built by constructors, by decoding padded / compact bits and by sub-value extraction (depth <= 3): all pairs for eq/cmp/hash; encode/decode, accessor/constructor inverses, products of extracted parts, pruning to unit-left and to the own type",
    "c19_budget_replay": "stacks of {0,1,2,5,251..254,300,65535,65536} items of {0,1,2,252,253,254} bytes; weights at budget-2 .. budget+65537",
    "c09_cmr_replay": "all combinator trees of depth <= 2 over iden/unit/witness/fail leaves, as nodes / bare roots / hiding wrappers, and converted to commitment- and redemption-time nodes; assertl / assertr over a hidden and over a visible executed child",
}


# thorough tier (VERIF_NATIVE_DEEP=1): what the larger enumeration is
DEEP_BOUNDS = {
    "c16_policy_roots_replay": "every depth-1 policy combined with every leaf on either side (and / or / 3-child threshold): about 26000 policies",
    "c05_machine_semantics_replay": "30 unary / 20 binary sub-expressions at depth 2 (instead of 14 / 12), comp over every 2nd x 3rd pair (instead of 5th x 7th): several thousand executions",
}


def _prepare(repo):
    os.makedirs(SRC, exist_ok=True)
    subprocess.run(["rsync", "-a", "--delete", "--exclude", "/target", "--exclude", ".git", "--exclude", "/fuzz/target",
                    repo.rstrip("/") + "/", SRC + "/"], check=True)
    hd = os.path.join(SRC, "verif_native")
    os.makedirs(hd, exist_ok=True)
    with open(os.path.join(SRC, "src", "lib.rs"), "a") as f:
        for fn in sorted(set(ORACLES.values())):
            dst = os.path.join(hd, fn)
            open(dst, "w").write(open(os.path.join(ROOT, "native", fn)).read())
            f.write("\n#[cfg(test)]\n#[path = \"%s\"]\nmod verif_native_%s;\n" % (dst, fn[:-3]))


def run(test, repo, timeout=3000, deep=False):
    """-> (status 'fails'|'passes'|'inconclusive', [CEX lines], output tail)
    deep: the thorough tier's larger enumeration (oracles that have one read VERIF_NATIVE_DEEP)"""
    _prepare(repo)
    env = dict(os.environ)
    env["CARGO_TARGET_DIR"] = TARGET
    env["CARGO_NET_OFFLINE"] = "true"
    env.pop("VERIF_NATIVE_DEEP", None)
    if deep:
        env["VERIF_NATIVE_DEEP"] = "1"
    cmd = ["cargo", "test", "--offline"] + ([] if test in DEBUG_PROFILE else ["--release"]) + ["--lib", test, "--", "--nocapture", "--test-threads", "1"]
    try:
        p = subprocess.run(cmd, cwd=SRC, env=env, capture_output=True, text=True, timeout=timeout)
    except subprocess.TimeoutExpired:
        return "inconclusive", [], "timeout"
    out = p.stdout + p.stderr
    cex = re.findall(r"(?:^|\.\.\. )CEX: (.*)$", out, re.M)
    if not cex and re.search(r"test result: FAILED", out):
        # the library itself panicked inside the enumeration: report the panic site and message
        pm = re.search(r"panicked at ([^\n]*):\n([^\n]*)", out)
        if pm and "verif_native" not in pm.group(1):
            cex = ["the library PANICS inside the enumeration at %s: %s" % (pm.group(1), pm.group(2))]
    if re.search(r"test result: FAILED", out):
        return "fails", cex, out[-3000:]
    if re.search(r"test result: ok\. 1 passed", out):
        return "passes", cex, out[-1500:]
    return "inconclusive", cex, out[-3000:]


def find_cex(test, repo, deep=False):
    st, cex, tail = run(test, repo, deep=deep)
    if st != "fails" or not cex:
        return None
    return {"engine": "native", "test": test, "oracle_file": "native/" + ORACLES[test], "failing_inputs": cex[:25],
            "cmd": "(cd build/native-src && CARGO_TARGET_DIR=build/native-target cargo test --offline --release --lib %s -- --nocapture)" % test}


def replay_cex(cex, repo):
    st, lines, tail = run(cex["test"], repo)
    print(tail)
    if st == "fails":
        print("REPLAY: the recorded inputs' oracle fails on the real code (violation reproduced):")
        for l in lines[:25]:
            print("  " + l)
        return 1
    if st == "passes":
        print("REPLAY: the oracle passes on the current tree")
        return 0
    print("REPLAY: inconclusive")
    return 2
