"""Property -> verification units / harnesses. One entry per claimed property."""

# Kani full-domain cross-checks of the std contracts assumed in prelude/std_specs.rs
STD_SPECS = ["s01_u8_checked_shl", "s02_usize_leading_zeros", "s03_result_unwrap_or", "s04_u32_from_bool",
             "s05_i32_try_from_u32", "s06_usize_try_from", "s07_usize_div_ceil_8"]

POLICY_ROOT_FNS = ['serialize::unsatisfiable', 'serialize::trivial', 'serialize::key', 'serialize::after', 'serialize::older', 'serialize::compute_sha256', 'serialize::verify_bexp', 'serialize::sha256', 'serialize::and', 'serialize::selector', 'serialize::or', 'serialize::thresh_summand', 'serialize::thresh_add', 'serialize::thresh_verify', 'serialize::threshold', 'Policy::serialize_no_witness', 'Policy::cmr', 'Policy::commit', 'Hiding::as_node', 'Hiding::get_node', 'satisfy::ok_if', 'Policy::satisfy_internal', 'Policy::satisfy', 'pcmr', 'psum', 'lemma_psum_frag_sum', 'lemma_frag_sum_ext', 'lemma_rooted_instances', 'frag_sum']
POLICY_SHAPE_PINS = ['serialize::unsatisfiable', 'serialize::trivial', 'serialize::key', 'serialize::after', 'serialize::older', 'serialize::compute_sha256', 'serialize::verify_bexp', 'serialize::sha256', 'serialize::and', 'serialize::selector', 'serialize::or', 'serialize::thresh_summand', 'serialize::thresh_add', 'serialize::thresh_verify', 'serialize::threshold']

PROPS = {
    "C13": {
        "units": ["bitstream"],
        # read_natural<N> is generic; the contract is proved for the instance N = usize (the one the library uses, R6). The
        # other instantiations ("all integer result types", signed ones with negative bounds included) are only covered by the
        # bounded enumeration c13_natural_replay: a change of the function's text makes the run undecided and runs it
        "watch": [("src/bit_encoding/bititer.rs", "impl[=impl<I: Iterator<Item = u8>> BitIter<I>] / fn:read_natural", "24fec514a166feb4")],
        "native_thorough": "c13_natural_replay",
        "native_fallback": "c13_natural_replay",
        "kani": {"quick": STD_SPECS + ["c13_read_cmr_complete", "c13_read_cmr_short_complete"],
                 "thorough": ["c13_read_fail_entropy_complete", "c13_collect_bits_bounded20", "c13_writer_ops_bounded", "c13_reader_ops_bounded", "c13_write_after_flush_bounded", "c13_window_close_bounded"]},
        "cex": {"BitIter::byte_slice_window": "c13_byte_slice_window_exact_cex", "BitWriter::flush_all": "c13_write_after_flush_bounded",
                "BitWriter::write_bit": "c13_write_after_flush_bounded", "BitWriter::write": "c13_writer_ops_bounded", "BitWriter::write_bits_be": "c13_writer_ops_bounded",
                "BitIter::next": "c13_reader_ops_bounded", "BitIter::read_bit": "c13_reader_ops_bounded", "BitIter::read_u2": "c13_reader_ops_bounded", "BitIter::read_u8": "c13_reader_ops_bounded",
                "BitIter::close": "c13_window_close_bounded"},
        "fallback": {
            "BitWriter::write_bit": ["c13_writer_ops_bounded"],
            "BitWriter::write_bits_be": ["c13_writer_ops_bounded"],
            "BitWriter::write": ["c13_writer_ops_bounded"],
            "BitWriter::flush_all": ["c13_writer_ops_bounded", "c13_write_after_flush_bounded"],
            "BitIter::next": ["c13_reader_ops_bounded"],
            "BitIter::read_bit": ["c13_reader_ops_bounded"],
            "BitIter::read_u2": ["c13_reader_ops_bounded"],
            "BitIter::read_u8": ["c13_reader_ops_bounded", "c13_read_cmr_complete"],
            "BitIter::close": ["c13_reader_ops_bounded", "c13_window_close_bounded"],
        },
        "level": "proof",
        "level_text": "Unbounded deductive proof (Verus) of functional contracts on the real BitIter / BitWriter / encode_natural code, "
                      "extracted from /repo on every run: every bit position, every cursor alignment, every natural number.",
        "level_note": "Trusted: Verus+Z3; the extractor's rewrite rules (logged in evidence); ByteSrc/ByteSink contracts for the "
                      "caller-supplied iterator/writer; assumed std specs (checked_shl, leading_zeros, From/TryFrom conversions); "
                      "64-bit usize; inputs shorter than 2^31 bits for read_natural's i32 depth counter.",
        "assumptions": [
            "ByteSrc: the wrapped byte iterator pops the head of a sequence and is fused",
            "ByteSink: write_all appends the whole buffer or fails; flush does not change content",
            "usize is 64 bits; bit counters do not reach 2^64",
            "read_natural: fewer than 2^31-1 bits pending (recurse_depth is an i32 in the real code)",
        ],
        "explanation": "",
        "not_decided": [],
    },
    "C19": {
        "units": ["budget"],
        "native_cex": "c19_budget_replay",
        "native_thorough": "c19_budget_replay",
        "native_fallback": "c19_budget_replay",
        "kani": {"quick": ["c19_derived_order_complete"],
                 "thorough": ["c19_get_budget_bounded", "c19_make_annex_bounded", "c19_padding_end_to_end_bounded"]},
        "level": "proof",
        "level_text": "Unbounded deductive proof (Verus) of is_budget_valid / get_padding / the cost<->weight conversions against "
                      "spec functions written from the property (CompactSize lengths, serialized stack length, ceil-weight): "
                      "every cost <= CONSENSUS_MAX, every stack, every deficit (all five match arms), plus the stack-level "
                      "sufficiency and minimality theorems over those contracts.",
        "level_note": "Assumed: get_budget's contract (elements' consensus_encode of Vec<Vec<u8>> = CompactSize(count) + sum(CompactSize(len)+len), "
                      "cross-checked by a bounded Kani harness); the annex-building iterator chain (bounded Kani harness); derive(PartialOrd) on "
                      "single-field tuple structs is the field order (Kani complete harness); bitcoin::Weight to_wu/from_wu are the identity on u64; "
                      "serialized stack shorter than 2^32 bytes (the code's own expect).",
        "assumptions": [
            "elements::encode::Encodable for Vec<Vec<u8>> yields CompactSize(count) + sum(CompactSize(len)+len) bytes",
            "serialized witness stack shorter than 2^32 bytes (otherwise get_budget panics by its own expect)",
            "derive(PartialOrd, Ord) on U32Weight(u32) / Cost(u32) is the order of the field",
            "bitcoin::Weight::to_wu / from_wu are the identity on u64",
        ],
        "explanation": "",
        "not_decided": [],
    },
    "C07": {
        "units": ["machine", "bounds"],
        "native_cex": "c05_machine_semantics_replay",
        "native_thorough": "c05_machine_semantics_replay",
        "native_fallback": "c05_machine_semantics_replay",
        "fallback": {
            "Frame::write_bit": ["c05_frame_write_bit_bounded"],
            "Frame::read_bit": ["c05_frame_read_peek_bounded"],
            "Frame::peek_bit": ["c05_frame_read_peek_bounded"],
            "Frame::write_u8": ["c05_frame_write_u8_bounded"],
            "Frame::copy_from": ["c05_frame_copy_from_bounded"],
            "get_indices": ["c05_frame_write_bit_bounded", "c05_frame_read_peek_bounded"],
        },

        "kani": {"quick": ["s07_usize_div_ceil_8", "c07_bounds_dominate_children_complete", "c07_bounds_comp_complete", "c07_limits_complete"], "thorough": []},
        "cex": {"NodeBounds::case": "c07_bounds_dominate_children_complete", "NodeBounds::comp": "c07_bounds_comp_complete",
                "LimitError::check_max_frames": "c07_limits_complete", "LimitError::check_max_cells": "c07_limits_complete"},
        "level": "proof",
        "level_text": "Unbounded deductive proof (Verus) of (1) every Bit Machine memory primitive (Frame::*, BitMachine::{new_write_frame, "
                      "move_write_frame_to_read, drop_read_frame, write_bit, write_u8, write_bytes, read_bit, copy, skip, fwd, back}): indices in "
                      "bounds, no arithmetic overflow, machine invariant preserved, cells/frames accounted exactly; (2) every NodeBounds "
                      "formula = the stated recurrence, saturating instead of overflowing; (3) LimitError::check_program / BitMachine::for_program "
                      "refuse exactly the programs beyond the hard limits and size the buffer and frame stacks from the bounds. PARTIAL: the "
                      "interpreter loop exec_with_tracker (that each arm meets the primitives' preconditions) is not under contract.",
        "level_note": "Not decided: the induction over program structure inside exec_with_tracker / exec_jet (unsafe FFI). Assumed: RedeemNode accessors "
                      "return fixed arbitrary values (R8 stand-ins); Vec::capacity/with_capacity contract; derive semantics of Cost ordering; "
                      "buffers shorter than 2^60 bytes.",
        "assumptions": [
            "RedeemNode::arrow()/bounds() are pure accessors (R8 stand-ins with uninterpreted values)",
            "Vec::with_capacity(n) yields capacity >= n; Vec::capacity >= len",
            "data buffer shorter than 2^60 bytes (for_program caps it at 3*MAX_CELLS bits)",
        ],
        "not_decided": ["exec_with_tracker's call-stack loop establishes each primitive's precondition on every path",
                        "exec_jet (unsafe FFI marshalling)"],
        "explanation": "",
    },
    "C05": {
        "units": ["machine"],
        "native_cex": "c05_machine_semantics_replay",
        "native_thorough": ["c05_machine_semantics_replay", "c05_jet_semantics_replay"],
        "native_fallback": ["c05_machine_semantics_replay", "c05_jet_semantics_replay"],
        # the jet clause of C05 ("arithmetic, logic and comparison jets computing their specified functions"): which C
        # function and which source / target type a Core jet is wired to (generated tables) - no contract reaches the FFI;
        # a change makes the run undecided and the bounded jet enumeration decides
        "watch": [("src/jet/init/core.rs", "fn:c_jet_ptr", "8bf3a48bbfb3976f"),
                  ("src/jet/init/core.rs", "impl[=impl Jet for Core] / fn:source_ty", "70212ecd48ee3f34"),
                  ("src/jet/init/core.rs", "impl[=impl Jet for Core] / fn:target_ty", "c130caffc8451900"),
                  ("src/jet/init/elements.rs", "fn:c_jet_ptr", "735491e889a220a9"),
                  ("src/jet/init/elements.rs", "impl[=impl Jet for Elements] / fn:source_ty", "daa7d6f09bf0eb43"),
                  ("src/jet/init/elements.rs", "impl[=impl Jet for Elements] / fn:target_ty", "708e177110ce8dae")],
        "fallback": {
            "Frame::write_bit": ["c05_frame_write_bit_bounded"],
            "Frame::read_bit": ["c05_frame_read_peek_bounded"],
            "Frame::peek_bit": ["c05_frame_read_peek_bounded"],
            "Frame::write_u8": ["c05_frame_write_u8_bounded"],
            "Frame::copy_from": ["c05_frame_copy_from_bounded"],
            "get_indices": ["c05_frame_write_bit_bounded", "c05_frame_read_peek_bounded"],
        },
        "cex": {"Frame::write_bit": "c05_frame_write_bit_bounded", "Frame::read_bit": "c05_frame_read_peek_bounded", "Frame::peek_bit": "c05_frame_read_peek_bounded",
                "Frame::write_u8": "c05_frame_write_u8_bounded", "Frame::copy_from": "c05_frame_copy_from_bounded"},
        "kani": {"quick": [], "thorough": ["c05_frame_write_bit_bounded", "c05_frame_read_peek_bounded", "c05_frame_write_u8_bounded", "c05_frame_copy_from_bounded"]},
        "level": "proof",
        "level_text": "Unbounded deductive proof (Verus) of the functional contract of every memory primitive the interpreter is built from: "
                      "write_bit sets exactly one bit and leaves every other bit of the buffer unchanged; read/peek return the bit under the cursor; "
                      "copy_from / copy move a bit range between non-overlapping frames for every pair of alignments, changing nothing else; "
                      "write_u8 / write_bytes are big-endian; write_value puts exactly the value's padded bits into the write frame and advances the cursor by the padded width; "
                      "input() pushes a read frame holding exactly the input's padded bits. This is the property's 'independent of where values sit in memory' at the level "
                      "where it is implemented. PARTIAL: the per-combinator arms of exec_with_tracker and the jets are not under contract.",
        "level_note": "Not decided by proof: the combinator arms of exec_with_tracker (watched: a change leaves the run undecided), exec_jet, the C jets themselves. In the thorough tier and as "
                      "fallback two BOUNDED native enumerations stand in for them: c05_machine_semantics_replay (2397 executions - several thousand in the thorough tier - of programs over every "
                      "combinator incl. disconnect (the right branch's root reaches the left branch), assertl / assertr and fail nodes (executions that must FAIL), compared with a direct evaluator of the "
                      "big-step semantics, debug assertions on; it found defect D8 - zero-width outputs returned as unit - fixed in /repo) and c05_jet_semantics_replay (2 x 88 Core / Elements "
                      "arithmetic, logic and comparison jets through the real dispatch tables and FFI against integer arithmetic). The generated c_jet_ptr / source_ty / target_ty tables are watched. Assumed as for C07.",
        "assumptions": ["data buffer shorter than 2^60 bytes"],
        "not_decided": ["per-combinator semantics of exec_with_tracker", "exec_jet and jet functions (C code)"],
        "explanation": "",
    },
    "C11": {
        "units": ["value"],
        "native_cex": "c11_value_order_replay",
        "native_thorough": "c11_value_order_replay",
        "native_fallback": "c11_value_order_replay",
        "exclude_functions": {"value": ["Finalizer1::convert_witness", "Finalizer2::convert_witness", "DecodeFinalizer::convert_witness", "Value::left__alloc"]},
        "kani": {"quick": ["s07_usize_div_ceil_8"], "thorough": []},
        "level": "proof",
        "level_text": "Unbounded deductive proof (Verus) on the real impls of PartialEq / Ord / Hash for Value: eq returns true exactly when the two "
                      "types have the same structure and the two padded bit strings denote the same element (spec function `sem`, independent of "
                      "buffer, offset, sum padding bits and trailing bits); cmp is the lexicographic order on (type root, compact bits), Equal exactly "
                      "when eq, dual and transitive; hash feeds the hasher a function of the type root and the compact bits only, hence equal values "
                      "hash equally. Rests on the worklist-invariant proof of CompactBitsIter::next and on the accessor contracts.",
        "level_note": "Assumed: Iterator::eq / Iterator::cmp / Ordering::then_with / for-loop desugaring as their std definitions (R10 rewrites, "
                      "modelled by verified helper loops over the real `next`); Tmr (SHA-256 type roots) injective and its derived Ord a total order; "
                      "Hasher modelled as an item sink; Arc<[u8]> helpers (R8). Word's derived Eq/Ord/Hash delegate to Value.",
        "assumptions": [
            "type Merkle roots (TMR) are collision free: equal roots <=> same type structure",
            "derive(Ord) on Tmr([u8;32]) is a total order",
            "Iterator::eq / Iterator::cmp compare element-wise / lexicographically until one side is exhausted",
            "values are well-formed (bit_offset + width inside the buffer; Final's cached fields consistent) — established by every constructor under contract",
        ],
        "not_decided": ["values produced by code not under contract (Bit Machine output through from_padded_bits IS covered; jets' C output is not)"],
        "explanation": "",
    },
    "C10": {
        "units": ["value"],
        "native_cex": "c11_value_order_replay",
        "native_thorough": "c11_value_order_replay",
        "native_fallback": "c11_value_order_replay",
        "exclude_functions": {"value": ["Finalizer1::convert_witness", "Finalizer2::convert_witness", "DecodeFinalizer::convert_witness", "Value::left__alloc"]},
        "kani": {"quick": ["s07_usize_div_ceil_8"], "thorough": ["c10_copy_bits_bounded"]},
        "fallback": {"copy_bits": ["c10_copy_bits_bounded"]},
        "cex": {"copy_bits": "c10_copy_bits_bounded"},
        "level": "proof",
        "level_text": "Unbounded deductive proof (Verus), per function, on the real value code: padded length = type width; copy_bits / right_shift_1 / "
                      "product (bit-level, every alignment, stale bits overwritten); ValueRef::{first_bit, as_left, as_right, as_product} return exactly "
                      "the stated sub-range and `None` exactly on a wrong tag/shape; Value::{unit, left, right, product, zero, from_padded_bits}; "
                      "constructor/accessor inverse theorems; RawByteIter::next; CompactBitsIter (worklist invariant: yields exactly "
                      "`compact(padded bits, type)` = the padded encoding minus padding); Value::from_compact_bits FUNCTIONALLY: the value returned has as its compact encoding "
                      "exactly the compact code at the head of the input (`cdec`), exactly those bits are consumed, and (theorem_compact_round_trip, with lemma_cdec_of_compact) decoding "
                      "`compact(v) ++ anything` gives back the same element and leaves `anything` - proved by a second worklist invariant over a spec machine that reads the future input. "
                      "PARTIAL: see level_note.",
        "level_note": "Value::prune is under a TYPING + TOTALITY contract only (task-machine worklist invariant: no panic, terminates, "
                      "result well-formed and of exactly the requested type); its functional clauses (prune keeps tags/leaves, two-step = one-step) "
                      "are not decided (an attempt with the same technique exceeded the solver's resource limit and was withdrawn; bounded native enumeration only). Not under contract: iter_padded's Take<BitIter<..>> adaptor, the Word/uN constructors. Assumed: Arc<[u8]>/Box/Vec conversions (R8 helpers), TMR injectivity, BitIter contracts imported from unit bitstream.",
        "assumptions": [
            "Arc<[u8]> / Box<[u8]> / Vec<u8> conversions preserve the byte sequence (R8 helpers)",
            "type widths below 2^60 bits (no saturation) for the functional clauses; from_padded_bits is proved panic- and overflow-free for every width",
        ],
        "not_decided": ["prune: tags/leaf data preserved, two-step = one-step (only typing/totality proved)", "iter_padded adaptor"],
        "explanation": "",
    },
    "C12": {
        "units": ["value"],
        # routes that build redemption programs; their convert_witness sites are under contract in unit value, the rest is watched
        "watch": [("src/node/construct.rs", "impl[impl<'brand> ConstructNode<'brand>] / fn:finalize_unpruned", "210497b57279ba22"),
                  ("src/node/construct.rs", "impl[impl<'brand> ConstructNode<'brand>] / fn:finalize_pruned", "93b881c6965a26aa"),
                  ("src/node/redeem.rs", "impl[=impl RedeemNode] / fn:prune", "5b79879edbd1c155"),
                  ("src/node/redeem.rs", "impl[=impl RedeemNode] / fn:prune_with_tracker", "6aa527180b286c0e"),
                  ("src/node/redeem.rs", "impl[=impl RedeemNode] / fn:decode", "eb74c1b7b9b5d381")],
        "native_cex": "c02_codec_replay",
        "native_thorough": "c02_codec_replay",
        "native_fallback": "c02_codec_replay",
        "functions": {"value": ["Finalizer1::convert_witness", "Finalizer2::convert_witness", "DecodeFinalizer::convert_witness",
                                "Value::zero", "Value::prune", "Value::from_compact_bits", "Value::from_padded_bits", "Value::shallow_clone",
                                "Value::left", "Value::right", "Value::product", "Value::unit", "Value::is_of_type", "final_eq",
                                "lemma_same_trans", "lemma_same_sym", "lemma_same_width", "lemma_shape_same", "lemma_exec_bound",
                                "lemma_wid", "lemma_wid2", "lemma_tmr_eq_same",
                                # the type-layout functions the value codecs are proved against (a wrong width / padding flag
                                # makes a witness decode to something its own serialisation does not give back)
                                "Final::unit", "Final::sum", "Final::product", "Final::bit_width", "Final::has_padding", "Final::is_empty",
                                "Final::bound", "Final::as_sum", "Final::as_product", "Final::pad_left", "Final::pad_right", "Final::eq"]},
        "kani": {"quick": [], "thorough": []},
        "level": "proof",
        "level_text": "Modular deductive proof (Verus) of the datatype invariant 'a witness stored in a redemption node has exactly the inferred target "
                      "type of its node' at the places where a Value enters a redemption node: the convert_witness of every `impl Converter<_, Redeem>` "
                      "(enumerated by a census of the repository: a new one is a lost anchor). Callee contracts used are themselves proved in the same unit: "
                      "Value::zero, Value::prune and Value::from_compact_bits return well-formed values of exactly the requested type and never panic. "
                      "PARTIAL, with one KNOWN FINDING (D5): finalize_unpruned does not check a witness given at construction time.",
        "level_note": "Assumed: the node/arrow/type-variable stand-ins (finalize() is an opaque deterministic function); in redeem.rs' prune Finalizer the three "
                      "`expect`s are explicit assumptions (`.assumed()`): they rest on type inference and the interpreter, which are not under contract. Not decided: "
                      "that Node::convert pairs the converted witness with the same arrow in convert_data; the human-readable witness map route (it feeds site 1); "
                      "SimpleFinalizer is excluded by the property text.",
        "assumptions": [
            "arrow().target.finalize() is a deterministic function of the node (R8 stand-in)",
            "redeem.rs prune Finalizer: re-inference succeeds, the witness is populated and prunable (its three `expect`s)",
            "target types narrower than 2^56 bits",
        ],
        "not_decided": ["Node::convert's pairing of witness and arrow", "human-encoding witness map", "execution never writes a wrong width (interpreter)"],
        "explanation": "",
    },
    "C18": {
        "units": ["dag"],
        "native_cex": "c18_dag_replay",
        "native_fallback": "c18_dag_replay",
        "native_thorough": "c18_dag_replay",
        "kani": {"quick": [], "thorough": []},
        "level": "proof",
        "level_text": "Unbounded deductive proof (Verus) on the real, generic PostOrderIter::next (explicit-stack algorithm): under a stack invariant proved "
                      "to be established by the constructors and preserved by every step, `next` never panics (its three asserts and all indexing), terminates, "
                      "numbers items consecutively, reports a child index exactly for the children that exist, each index being smaller than the item's own and "
                      "pointing at the place where that child (its sharing class) was yielded, and yields a sharing class only if it was not yielded before. "
                      "Also: the provided left_child/right_child, IterStackItem helpers, NoSharing, SwapChildren::as_dag_node + PostOrderIterItem::unswap "
                      "(right-to-left = mirror image), PreOrderIter::next (parent first, once per class, skipped entries already yielded). The number of items yielded "
                      "never exceeds the size of the tree unfolding of the root (potential `rem`), so with at most usize::MAX tree nodes the index cannot overflow. "
                      "COMPLETENESS: the invariant also carries that every item yielded had its children (their classes) yielded earlier and that an exhausted iterator has yielded "
                      "the root; theorem_post_order_complete: for every path of child edges from the root, every node on it has been yielded (itself or a node of its class) once next "
                      "returns None - given that sharing classes are congruences (stated hypothesis `cong`). SOUNDNESS: everything on the stack or yielded is reachable from the root. "
                      "PRE-ORDER (ghost trace added): the work list only holds the root or children of nodes already yielded, every node yielded is the root or a child of one yielded EARLIER "
                      "(parent first), the table holds exactly the classes yielded; theorem_pre_order_complete / _reachable; and theorem_pre_post_same_set: an exhausted post-order and an "
                      "exhausted pre-order traversal of one root under one sharing policy have yielded the same nodes (up to sharing class) - both exactly the reachable ones. "
                      "is_shared_as: the verdict is the pointwise address comparison of the traces of the two iterators it creates (InternalSharing over a clone "
                      "of the root, the requested tracker over the root), true only when one trace is exhausted; the zip loop terminates. "
                      "theorem_shared_as_accept_sound: when the pointer-sharing trace is exhausted and every pair agreed, any two reachable nodes of one requested sharing class "
                      "have one address (accept ==> the requested sharing merges nothing the pointers keep apart), given that the clone is the same handle, that a node's class is a "
                      "function of its address and that one address has one pair of children.",
        "level_note": "Assumed (R5): the contracts of the two traits — DagLike (as_dag_node is a pure function of the node; the DAG is finite/acyclic) and "
                      "SharingTracker (a table from sharing class to first index). NoSharing, InternalSharing and MaxSharing (for &Node) ARE proved to meet it "
                      "(the entry-API match is rewritten to get/insert, R10; vstd's HashMap model; key-model axioms for PointerId / SharingId / EncodeId), as is EncodeSharing; the Arc/SwapChildren "
                      "variants of MaxSharing are not. Ghost fields `hist` (trace) and `root` are added to PostOrderIter. `for (a, b) in x.zip(y)` is rewritten to the definition of Zip::next (R10). "
                      "Not decided: the converse for is_shared_as (equal partitions ==> accepted) and its exit where the requested traversal ends strictly first, "
                      "VerbosePreOrderIter.",
        "assumptions": [
            "DagLike implementors: as_dag_node deterministic; finite acyclic DAG (rank)",
            "SharingTracker implementors obey the class-table contract (proved for NoSharing, InternalSharing, MaxSharing<&Node>)",
            "Hash/Eq of PointerId and of N::SharingId obey vstd's key model; PointerId::from is a function of the node reference",
            "the tree unfolding of the DAG has at most usize::MAX nodes (precondition of next / is_shared_as)",
            "Clone of a DagLike handle: only call_ensures(D::clone) is known about the clone is_shared_as iterates over",
            "theorem_shared_as_accept_sound: hypotheses class_by_pointer (one address, one requested class), cong for InternalSharing (one address, one pair of children), clone == same handle",
        ],
        "not_decided": ["is_shared_as: equal sharing partitions ==> accepted (the direction accepted ==> equal partitions is theorem_shared_as_accept_sound, for the exit where the pointer-sharing traversal is exhausted)", "that a given tracker's classes are congruences (hypothesis of the completeness theorem)"],
        "explanation": "",
    },
    "C16": {
        "units": ["policy", "cmr"],
        "parallel_units": True,
        # ALL obligations of unit cmr count: the policy-root contracts are proved against the construction-trait laws, so
        # the implementations of those laws (nodes, bare roots, the hiding wrapper - C09) carry C16's first sentence too
        "pin_functions": {"cmr": POLICY_SHAPE_PINS},
        "kani": {"quick": [], "thorough": []},
        # the parts of satisfaction no contract speaks about (which children are selected, lock-time comparisons): a change
        # makes the run undecided and the bounded enumeration decides
        "watch": [("src/policy/satisfy.rs", "impl[=impl<Pk: ToXOnlyPubkey> Policy<Pk>] / fn:satisfy_internal", "ab1c0e72921161bb"),
                  ("src/policy/satisfy.rs", "impl[impl<'brand, Pk: ToXOnlyPubkey> Satisfier<'brand, Pk>\n    for (&types::Context<'brand>, elements::Sequence)] / fn:check_older", "cc9a17d536259daa"),
                  ("src/policy/satisfy.rs", "impl[impl<'brand, Pk: ToXOnlyPubkey> Satisfier<'brand, Pk>\n    for (&types::Context<'brand>, elements::LockTime)] / fn:check_after", "ba3c1cda3126f759"),
                  # satisfy() prunes the program by running it: which branches the tracker remembers decides whether the
                  # returned program still runs ("the program it returns runs successfully")
                  ("src/bit_machine/tracker.rs", "impl[=impl ExecTracker for SetTracker] / fn:visit_node", "1dcf06ca251b20de"),
                  ("src/bit_machine/tracker.rs", "impl[=impl PruneTracker for SetTracker] / fn:contains_left", "77aceaebe6bd080c"),
                  ("src/bit_machine/tracker.rs", "impl[=impl PruneTracker for SetTracker] / fn:contains_right", "cbb44196d709a9e8"),
                  ("src/node/redeem.rs", "impl[=impl RedeemNode] / fn:prune_with_tracker", "6aa527180b286c0e")],
        "native_cex": {"Policy::sort": "c16_policy_sort_replay", "Policy::sorted": "c16_policy_sort_replay", "*": "c16_policy_roots_replay"},
        "native_thorough": ["c16_policy_sort_replay", "c16_policy_roots_replay"],
        "native_fallback": ["c16_policy_sort_replay", "c16_policy_roots_replay"],
        "level": "proof",
        "level_text": "Deductive proof (Verus), two parts. (1) FIRST sentence - roots: the real generic fragment builders of src/policy/serialize.rs (15 functions), "
                      "Policy::serialize_no_witness, Policy::cmr, Policy::commit, Policy::satisfy_internal and Policy::satisfy, over the construction-trait laws that unit `cmr` "
                      "proves for nodes, bare roots and the hiding wrapper (C09): for EVERY policy (recursion through Arc and Vec, thresholds of any length) the root computed directly, "
                      "the root of the compiled program and the root of whatever satisfy_internal builds - for any answers of the satisfier, any choice of branches - are one and the same "
                      "function pcmr(policy); satisfy returns a program with that root. (2) LAST sentence - Policy::sort / Policy::sorted: "
                      "the result is canonical at EVERY depth (and/or children ordered, threshold children sorted, recursively), an already canonical policy is "
                      "returned unchanged (idempotence), and the result EQUALS nf(input) - a spec function (children first; and/or greater child left; threshold children by vstd's "
                      "spec merge sort) proved invariant under exchanging the children of and/or nodes, under every permutation (multiset form; transpositions) of a threshold's children, "
                      "and congruent in the children (so at any depth): reordered policies sort to the same policy. The SECOND sentence (satisfaction succeeds exactly when the answers make the policy true; the program runs) "
                      "is not decided deductively: bounded native enumeration c16_policy_roots_replay (thorough tier / fallback), labelled bounded.",
        "level_note": "Assumed (R8): the derived Ord on Policy is a total order (`ple`: reflexive, total, transitive, and - used only for the confluence clause - antisymmetric w.r.t. structural equality); slice::sort returns a sorted permutation and leaves a sorted input unchanged; "
                      "Arc::make_mut gives write access to the Arc's content; `for sub in &mut *subs` is rewritten to an index loop (R10); the or-pattern arm is duplicated (R18); "
                      "Vec values with equal contents are equal and for every content there is a Vec (vec_of). NOT decided: whether satisfaction succeeds exactly when the policy is true and whether the returned program executes (typed programs, signatures, the Bit Machine) - "
                      "bounded enumeration only. Roots part: R8 stand-ins for the Elements jets (by name), Word constructors, keys/hashes, the satisfier trait (R5), costs and the cheapest-k selection; "
                      "`iter().map(..).collect()` and `for .. in a[1..].iter().zip(b[1..].iter())` are rewritten to index loops (R10); `Context::with_context(|ctx| ..)` to a fresh context.",
        "assumptions": [
            "roots: hashing uninterpreted (as C09); `.expect(\"consistent types\")` and the other panics are not proved absent (partial correctness); finalize_types / finalize_unpruned / prune keep the root (Node::convert: census + watch in unit cmr); "
            "the satisfier's answers, signature/preimage values, costs and the choice of the k cheapest children are opaque (they cannot enter a root); the fragments' combinator shapes are pinned (a changed shape makes the run undecided, not a violation)",
            "derive(Ord) on Policy is a total order consistent with structural equality (reflexive, total, transitive; antisymmetric for the confluence clause)",
            "Vec::sort yields a sorted permutation and is the identity on sorted input",
            "Arc::make_mut(a) is a mutable reference to a's content",
        ],
        "not_decided": ["second sentence of C16 (satisfaction iff true, returned program runs): bounded enumeration only"],
        "explanation": "",
    },
    "C14": {
        "units": ["jets_core", "jets_elements", "jets_bitcoin"],
        "parallel_units": True,
        "kani": {"quick": [], "thorough": []},
        "native_cex": "c14_jet_codes_replay",
        "native_thorough": ["c14_jet_codes_replay", "c14_jet_names_replay"],
        "native_fallback": ["c14_jet_codes_replay", "c14_jet_names_replay"],
        # the generated name tables (Display / FromStr): string matching is outside Verus; watched, with the exhaustive native
        # enumeration c14_jet_names_replay (names parse back; Core jets vs their Elements namesakes) as the labelled stand-in
        "watch": [("src/jet/init/core.rs", "impl[=impl fmt::Display for Core] / fn:fmt", "86ab6558276edc70"),
                  ("src/jet/init/core.rs", "impl[=impl str::FromStr for Core] / fn:from_str", "3bc7aca769357393"),
                  ("src/jet/init/elements.rs", "impl[=impl fmt::Display for Elements] / fn:fmt", "c89971d579eb36f8"),
                  ("src/jet/init/elements.rs", "impl[=impl str::FromStr for Elements] / fn:from_str", "e42960fa495f03b2"),
                  ("src/jet/init/bitcoin.rs", "impl[=impl fmt::Display for Bitcoin] / fn:fmt", "2203e9ee8d1332d9"),
                  ("src/jet/init/bitcoin.rs", "impl[=impl str::FromStr for Bitcoin] / fn:from_str", "85dc1501f0d82586"),
                  ("src/jet/init/core.rs", "impl[=impl Jet for Core] / fn:source_ty", "70212ecd48ee3f34"),
                  ("src/jet/init/core.rs", "impl[=impl Jet for Core] / fn:target_ty", "c130caffc8451900"),
                  ("src/jet/init/elements.rs", "impl[=impl Jet for Elements] / fn:source_ty", "daa7d6f09bf0eb43"),
                  ("src/jet/init/elements.rs", "impl[=impl Jet for Elements] / fn:target_ty", "708e177110ce8dae")],
        "level": "proof",
        "level_text": "Deductive proof (Verus), exhaustive over the three finite jet families (368 Core, 471 Elements, 428 Bitcoin jets): the real `encode` of each "
                      "family writes exactly its table's code; the real `decode` (its `decode_bits!` tree expanded by the macro's own three rules and cut into sub-tree "
                      "functions) computes a decision tree `dec`; and over those two contracts: (soundness) whatever `decode` accepts starts with exactly the bits `encode` "
                      "writes for the returned jet and consumes exactly those; (round trip) the bits `encode` writes for a jet, followed by ANY continuation, decode to that "
                      "jet; (prefix-freeness) no jet's code is a prefix of another's. Only these Rust-side code-table clauses of C14 are addressed.",
        "level_note": "The decode tree, the code table and the per-jet proof scripts are generated from /repo's text on every run (vx/jetgen.py: G1 table, R19 macro expansion, "
                      "R20 outlining, G2 decision-tree spec, G3 proof scripts); every generated step is checked by Verus (Z3, and Verus' interpreter for the arithmetic of the "
                      "1267 literal codes). Assumed: BitIter::next's and BitWriter::write_bits_be's contracts (proved in unit `bitstream`, property C13); the extractor expands "
                      "`decode_bits!` exactly as rustc would (the macro text is compared with the three rules the expander implements, else the run is undecided); `.into()` on "
                      "decode::Error is the identity. NOT decided by proof: name <-> parse round trip (str) and Core-vs-Elements namesake types / codes - both covered only by the exhaustive native "
                      "enumeration c14_jet_names_replay (thorough tier; fallback when one of the watched generated tables changes), labelled bounded; every comparison with libsimplicity's C tables "
                      "(roots, types, costs) and C prototypes, exec_jet buffer sizes: not addressed.",
        "assumptions": [
            "BitIter::next and BitWriter::write_bits_be satisfy the contracts proved for them in unit bitstream (C13)",
            "the extractor's expansion of decode_bits! equals rustc's (three-rule macro, text compared on every run)",
            "ByteSrc / ByteSink contracts of the caller-supplied byte iterator / writer",
        ],
        "not_decided": ["name parses back to the jet (str) - native enumeration only", "cmr / source_ty / target_ty / cost equal libsimplicity's tables", "Core jets have the types and codes of their Elements namesakes - native enumeration only",
                        "extern declarations match the C prototypes", "exec_jet buffer widths"],
        "explanation": "",
    },
    "C02": {
        "units": ["decode", "bitstream", "value"],
        "parallel_units": True,
        # the bit-level readers every decoder contract rests on (proved in unit bitstream, shared with C13), and the value
        # decoders RedeemNode::decode reads its witnesses with (unit value: total for EVERY type width, saturated ones included)
        "functions": {"bitstream": ["BitIter::next", "BitIter::read_bit", "BitIter::read_u2", "BitIter::read_u8", "BitIter::read_natural", "BitIter::close"],
                      "value": ["Value::from_padded_bits", "Value::from_compact_bits", "DecodeFinalizer::convert_witness", "Value::left__alloc"]},
        "native_cex": "c02_codec_replay",
        "native_thorough": "c02_codec_replay",
        "native_fallback": "c02_codec_replay",
        "kani": {"quick": ["c13_read_cmr_complete", "c13_read_cmr_short_complete"], "thorough": ["c13_read_fail_entropy_complete"]},
        "level": "proof",
        "level_text": "Deductive proof (Verus) on the real decode_node, decode_expression (src/bit_encoding/decode.rs) and ConstructNode::decode (src/node/construct.rs), for every input "
                      "stream shorter than 2^31 bits: (totality) no subtraction underflows, no index is out of bounds (`converted[*i]`, `nodes[..]`, `converted[len - 1]`), no assert/panic "
                      "can fire, the word size passed to Word::from_bits is at most 31, both loops terminate, and the second vector is allocated only after `len` nodes of at least two "
                      "bits each were read (allocation linear in the input); (canonicity) decode_node consumes exactly ncode(returned node) - the function encode_node writes (unit `encode`, "
                      "C01) -, every child reference points strictly backwards, an accepted program's bits are the length prefix followed by its nodes' codes, no hidden root repeats, and "
                      "ConstructNode::decode accepts only inputs that end in fewer than eight zero padding bits (trailing bytes and non-zero padding rejected, via BitIter::close's contract). "
                      "The two decoders users call are under contract too: CommitNode::decode returns Ok only for such an input AND when the sharing check (is_shared_as::<MaxSharing>, C18) "
                      "said yes; RedeemNode::decode returns Ok only for such a program stream, after the witness stream passed close(), AND when no two nodes of the finished program - "
                      "in the sharing the encoding chose (the whole InternalSharing post-order) - have the same identity hash.",
        "level_note": "Assumed contracts: BitIter::{read_bit, read_u2, read_natural, close} as proved in unit bitstream (C13); read_natural::<u32> = the usize instance; read_cmr / read_fail_entropy "
                      "(Kani complete harnesses); Word::from_bits (consumes the word's bits, panics only for n > 31); J::decode (C14's soundness theorem); the node constructors "
                      "(ArcNode::unit .. const_word) are total; HashSet::insert; and the post-order iterator over (usize, &[DecodeNode]): consecutive numbering, yields positions of the slice, "
                      "terminates, yields the root last (C18 proves these for PostOrderIter in general; the instantiation for this slice-position DagLike is assumed). NOT decided: that the "
                      "canonical-order check together with the iterator contract excludes every unused / out-of-order node (the iterator's traversal order is not specified beyond the above), "
                      "that distinct identity hashes mean maximal sharing (a statement about the hash), type inference totality, whole-program re-encoding equality incl. witnesses, what Node::convert reads from the witness stream "
                      "(R8 stand-in convert_with_witness; value typing is C12). Entry points: `with_context(|ctx| ..)` becomes a fresh context, `x.map_err(DecodeError::V)?` is spelled as a match (R1), "
                      "the finished-program iterator is a stand-in with PostOrderIter::next's contract.",
        "assumptions": [
            "BitIter::{read_bit, read_u2, read_natural::<usize>} contracts (proved under C13); read_natural::<u32> behaves as the usize instance",
            "read_cmr / read_fail_entropy consume 256 / 512 bits (Kani complete harnesses c13_read_cmr_*, c13_read_fail_entropy_complete)",
            "Word::from_bits(bits, n) consumes exactly the word's bits and panics only for n > 31",
            "J::decode accepts exactly the returned jet's code (C14)",
            "node constructors are total; HashSet::insert reports prior membership",
            "post-order iterator over the decoded slice: consecutive numbering, valid positions, termination, root yielded last",
            "inputs shorter than 2^31 bits",
        ],
        "not_decided": ["unused / out-of-order nodes beyond what the index check and the iterator contract give", "totality of type inference / finalisation",
                        "whole-program re-encoding equality", "the witness values Node::convert reads (C12 types them)"],
        "explanation": "",
    },
    "C01": {
        "units": ["encode", "dag", "bitstream"],
        # the tracker the serialiser shares nodes with, and the bit-level writers every encoder contract rests on
        "functions": {"dag": ["EncodeSharing::record", "EncodeSharing::seen_before"],
                      "bitstream": ["BitWriter::write_bit", "BitWriter::write_bits_be", "BitWriter::flush_all", "BitWriter::n_total_written", "encode_natural", "truncated_bit_len"]},
        "kani": {"quick": [], "thorough": ["c01_encode_hash_bounded"]},
        "fallback": {"encode_hash": ["c01_encode_hash_bounded"]},
        "native_cex": "c02_codec_replay",
        "native_thorough": "c02_codec_replay",
        "native_fallback": "c02_codec_replay",
        "level": "proof",
        "level_text": "Deductive proof (Verus) on the real serialiser (src/bit_encoding/encode.rs): encode_node writes exactly ncode(abstract content of the node) for every node kind, position "
                      "and child distance - the same function decode_node's consumed bits are proved to equal (unit `decode`, C02) - and its debug assertions / unreachable arms cannot fire for "
                      "items the post-order iterator yields; encode_hash writes the bytes' bits; encode_value writes the value's compact bits one by one; encode_witness writes every witness "
                      "value, bit for bit, in iteration order; encode_program writes the node count followed by every node's code in iteration order and returns the number of bits written; "
                      "EncodeSharing (nodes keyed by sharing id, hidden nodes by root) meets the SharingTracker contract; the bit-level writers and encode_natural are proved in unit bitstream. "
                      "Over the contracts: a node with the content of a decoded node is re-encoded to exactly the bits the decoder consumed (theorem_node_reencode). Only this codec layer "
                      "of C01 is addressed.",
        "level_note": "Assumed contracts: Jet::encode writes the jet's code (proved per family under C14); `value.iter_compact()` yields the value's compact bits (iterator proved in unit value, C10); "
                      "the iterators encode_program / encode_witness loop over yield a ghost sequence of items satisfying item_ok (what C18 proves of PostOrderIter::next, instantiated with "
                      "EncodeNode::as_dag_node and EncodeSharing - the instantiation is not re-proved); `node::Node<N>` is an opaque node type with an arbitrary `inner()`; EncodeId is a lawful HashMap key. "
                      "NOT decided: that decoding rebuilds the same DAG (identity-hash sharing, hidden-node sharing, type re-inference), that the witness iterator visits witnesses in the decoder's "
                      "order (Node::encode_with_witness), roots and types of the decoded program.",
        "assumptions": [
            "BitWriter::{write_bit, write_bits_be}, encode_natural contracts (proved under C13)",
            "Jet::encode writes the family's code for the jet (C14); encode_value writes the value's compact bits (C10)",
            "items handed to encode_node satisfy PostOrderIter::next's contract (C18) for EncodeNode::as_dag_node",
        ],
        "not_decided": ["same DAG after decoding (sharing, hidden nodes, type inference)", "witness iteration order equals the decoder's conversion order", "cmr/ihr/amr/arrow equality after the round trip"],
        "explanation": "",
    },
    "C09": {
        "units": ["cmr"],
        "exclude_functions": {"cmr": POLICY_ROOT_FNS + ["Policy"]},
        "native_cex": "c09_cmr_replay",
        "native_thorough": "c09_cmr_replay",
        "native_fallback": "c09_cmr_replay",
        "kani": {"quick": [], "thorough": []},
        "level": "proof",
        "level_text": "Deductive proof (Verus) with the hash compression function and the IV constants uninterpreted: each of Cmr's constructors (src/merkle/cmr.rs) applies the IV of its own "
                      "name to exactly its arguments; every way src/node/mod.rs builds a node (the 16 CoreConstructible constructors, disconnect, witness, Node::from_parts) stores "
                      "cmr_of(combinator, children's roots, committed payload) - a function in which the witness value, the disconnected branch and all type information do not occur, and in "
                      "which assertl/assertr use case's function on (root, hidden root); ConstructibleCmr (roots 'from scratch', e.g. Policy::cmr) and Hiding<N> (sub-expressions replaced by "
                      "hidden nodes carrying their roots, src/node/hiding.rs) satisfy the same per-constructor laws, which are stated once on the construction traits and checked for all three "
                      "implementations; Hiding::hide keeps the root.",
        "level_note": "SHA-256 is not modelled: `upd1/upd2/upd_entropy/mroot` and the IVs are uninterpreted, so 'equals the tagged hash' is decided only up to WHICH named IV and which arguments are "
                      "used, and 'different structures get different roots' (collision resistance) is not decided. Assumed: Cmr::const_word is a function of the word; Jet::cmr; the cached-data "
                      "constructors are total. NOT decided: Node::convert and the finalisation paths copy the root (generic converter, post-order loop); named-node / human-encoding conversions; "
                      "Policy::commit().cmr() == Policy::cmr() (needs the policy serialisation); type inference does not touch roots (roots are never written after construction - a "
                      "whole-module argument, not a contract).",
        "assumptions": [
            "SHA-256 compression, midstate packing and the IV constants are uninterpreted functions / named constants",
            "Cmr::const_word(word) and Jet::cmr are functions of the word / jet alone",
            "cached-data constructors (N::CachedData::*) are total and carry no root",
        ],
        "not_decided": ["collision clause (different structures get different roots)", "IV bytes equal the tagged hashes", "Node::convert / finalize copy the root", "Policy::cmr == Policy::commit().cmr()", "named-node conversions"],
        "explanation": "",
    },
}

NOT_APPLICABLE = [
    {"property_id": "C03", "reason": "relational Rust-vs-C agreement: the C side is outside both verifiers; the Rust side needs type inference and real SHA-256"},
    {"property_id": "C04", "reason": "type inference is an Arc<Mutex<..>> union-find with recursive closures: outside Verus's subset without modelling, out of CBMC's reach (one unify > 28 min); display cost bound is a complexity property"},
    {"property_id": "C06", "reason": "relational across the FFI (Rust vs C evaluator), needs typed programs and C jets"},
    {"property_id": "C08", "reason": "composition of execution, re-inference, witness pruning and the C anti-DoS checker; only Value::prune is reachable and is covered under C10"},
    {"property_id": "C15", "reason": "raw-pointer marshalling into C structs read by C jets: both ends are outside the verifiers"},
    {"property_id": "C17", "reason": "logos-generated lexer and str processing (no str reasoning in Verus, unbounded parsing in CBMC) plus typed programs"},
    {"property_id": "C20", "reason": "concurrency: Kani has no thread support; the code uses std::sync/TLS rather than Verus's permission types"},
]
