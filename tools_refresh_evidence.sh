#!/bin/sh
# Re-run every registered quick check on the (clean) working tree of /repo so that the committed evidence files are
# records of runs on the unchanged tree (seed / mutant experiments overwrite them otherwise).
cd "$(dirname "$0")" || exit 2
if [ -n "$(git -C /repo status --porcelain)" ]; then echo "/repo is not clean"; exit 2; fi
rc=0
for p in $(python3 -c "import props; print(' '.join(sorted(props.PROPS)))"); do
  ./check $p | tail -1 || rc=1
done
exit $rc
