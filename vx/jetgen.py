"""Generator for the jet-family units (property C14).

Input: the text of `fn encode` and `fn decode` of one jet family in src/jet/init/<family>.rs and the text of
`macro_rules! decode_bits` in src/macros.rs, read from the repository on every run.

Output (all of it derived from that text, nothing from a stored copy):

  G1  `spec fn code_<s>(j) -> (nat, nat)`: the `(n, len)` arms of `encode`, arm by arm (the encode table as a spec).
  R19 `fn decode`: the repository's signature; its `decode_bits!(bits, {tree})` invocation expanded by this generator
      following the macro's three rules (the macro text must be the one in DECODE_BITS_RULES, else LostAnchor);
      `.into()` on the two error constructors is dropped (identity: the function returns `decode::Error`).
  R20 outlining: the expanded `match` tree is cut every D levels; each sub-tree below a cut becomes its own function
      `decode__c<path>` called at the cut (same statements, same order; only the function boundary is new) so that
      every solver query is small.
  G2  `spec fn dec_<s>__c<path>(p)`: the decision tree as a function of the bit string (twin of the expanded code,
      generated from the same tree); the exec functions are verified to compute exactly it.
  G3  proof skeletons: per chunk a soundness lemma (every `Ok` leaf sits at the path its encode-table code spells) and a
      completeness lemma (the path spelled by each jet's code reaches that jet's leaf). These are proof *scripts*: Verus
      checks every step against `code_<s>` and `dec_<s>`; a wrong table entry fails the assertion naming the jet.
"""
import re

from rustscan import mask, match_close

DECODE_BITS_RULES = """macro_rules! decode_bits {
    ($bits:ident, {}) => {
        Err($crate::decode::Error::InvalidJet.into())
    };
    ($bits:ident, {$jet:path}) => {
        Ok($jet)
    };
    ($bits:ident, { 0 => $false_branch:tt, 1 => $true_branch:tt }) => {
        match $bits.next() {
            None => Err($crate::decode::Error::EndOfStream.into()),
            Some(false) => decode_bits!($bits, $false_branch),
            Some(true) => decode_bits!($bits, $true_branch),
        }
    };
}"""


class GenError(Exception):
    pass


MATCHERS = ["($bits:ident, {})", "($bits:ident, {$jet:path})", "($bits:ident, { 0 => $false_branch:tt, 1 => $true_branch:tt })"]


def parse_macro(macro_text):
    """-> the three transcribers (text between the braces of `=> { ... }`), after checking that the three matchers
    are the ones this expander implements (R19). Transcriber text is taken from the repository as it is."""
    m = mask(macro_text)
    ob = m.index("{")
    cb = match_close(m, ob)
    body, mb = macro_text[ob + 1:cb], m[ob + 1:cb]
    rules, pos = [], 0
    while True:
        while pos < len(mb) and mb[pos] in " \t\r\n;":
            pos += 1
        if pos >= len(mb):
            break
        if mb[pos] != "(":
            raise GenError("macro decode_bits!: expected a `(matcher)` at %r" % body[pos:pos + 30])
        pe = match_close(mb, pos)
        matcher = body[pos:pe + 1]
        mt = re.match(r"\s*=>\s*\{", mb[pe + 1:])
        if not mt:
            raise GenError("macro decode_bits!: expected `=> {` after the matcher")
        tb = pe + 1 + mt.end() - 1
        te = match_close(mb, tb)
        rules.append((matcher, body[tb + 1:te]))
        pos = te + 1
    if [" ".join(r[0].split()) for r in rules] != [" ".join(x.split()) for x in MATCHERS]:
        raise GenError("macro decode_bits! no longer has the three matchers the expander (R19) implements: %s" % [r[0] for r in rules])
    return [r[1].strip() for r in rules]


def macro_ok(macro_text):
    try:
        parse_macro(macro_text)
        return True
    except (GenError, ValueError):
        return False


def parse_tree(tt):
    """tt: a `{...}` token tree of the decode_bits! grammar -> ('leaf', path) | ('invalid',) | ('br', t0, t1)"""
    t = tt.strip()
    if not (t.startswith("{") and t.endswith("}")):
        raise GenError("decode tree: expected a braced token tree, found %r" % t[:40])
    inner = t[1:-1].strip()
    if inner == "":
        return ("invalid",)
    mi = mask(inner)
    m0 = re.match(r"0\s*=>\s*\{", mi)
    if not m0:
        if not re.match(r"^[A-Za-z_][A-Za-z0-9_]*(::[A-Za-z_][A-Za-z0-9_]*)*$", inner):
            raise GenError("decode tree: leaf is not a path: %r" % inner[:60])
        return ("leaf", inner)
    ob = m0.end() - 1
    cb = match_close(mi, ob)
    m1 = re.match(r"\s*,\s*1\s*=>\s*\{", mi[cb + 1:])
    if not m1:
        raise GenError("decode tree: expected `, 1 => {` after the 0-branch")
    ob2 = cb + 1 + m1.end() - 1
    cb2 = match_close(mi, ob2)
    if inner[cb2 + 1:].strip() not in ("", ","):
        raise GenError("decode tree: trailing tokens after the 1-branch: %r" % inner[cb2 + 1:][:40])
    return ("br", parse_tree(inner[ob:cb + 1]), parse_tree(inner[ob2:cb2 + 1]))


def parse_decode_fn(fn_text):
    """-> (bits ident, tree, prefix text up to the invocation, suffix after it)"""
    m = mask(fn_text)
    mts = list(re.finditer(r"decode_bits!\s*\(\s*(\w+)\s*,\s*\{", m))
    if len(mts) != 1:
        raise GenError("expected exactly one decode_bits! invocation, found %d" % len(mts))
    mt = mts[0]
    ob = mt.end() - 1
    cb = match_close(m, ob)
    cp = m.index(")", cb)
    return mt.group(1), parse_tree(fn_text[ob:cb + 1]), fn_text[:mt.start()], fn_text[cp + 1:]


def parse_encode_fn(fn_text, enum_name):
    arms = re.findall(r"%s::(\w+)\s*=>\s*\((\d+),\s*(\d+)\)," % enum_name, fn_text)
    if not arms:
        raise GenError("encode table of %s not in the expected `Jet => (n, len),` form" % enum_name)
    n_variants = len(re.findall(r"%s::\w+\s*=>" % enum_name, fn_text))
    if n_variants != len(arms):
        raise GenError("%d encode arms but %d parsed" % (n_variants, len(arms)))
    return [(a, int(n), int(l)) for a, n, l in arms]


def leaves(t, path=""):
    if t[0] == "leaf":
        yield path, t[1]
    elif t[0] == "br":
        yield from leaves(t[1], path + "0")
        yield from leaves(t[2], path + "1")


def count_nodes(t):
    if t[0] == "br":
        return 1 + count_nodes(t[1]) + count_nodes(t[2])
    return 1


class Family:
    def __init__(self, enum_name, suffix, encode_text, decode_text, transcribers, D=4, vacuity=False, K=6):
        self.E, self.s, self.D, self.vacuity, self.K = enum_name, suffix, D, vacuity, K
        self.tr = transcribers
        self.codes = parse_encode_fn(encode_text, enum_name)
        self.code_of = {nm: (n, l) for nm, n, l in self.codes}
        self.bits, self.tree, self.pre, self.post = parse_decode_fn(decode_text)
        self.chunks = []  # (path, subtree)
        self._collect(self.tree, "")
        self.leaf_of = {}
        for path, nm in leaves(self.tree):
            self.leaf_of.setdefault(nm.split("::")[-1], []).append(path)

    def is_cut(self, t, path):
        return t[0] == "br" and len(path) % self.D == 0

    def _collect(self, t, path):
        if t[0] != "br":
            return
        if self.is_cut(t, path):
            self.chunks.append((path, t))
        self._collect(t[1], path + "0")
        self._collect(t[2], path + "1")

    def cname(self, path):
        return "c" + path

    def chunk_root_of(self, path):
        """the chunk containing the node at `path` (a leaf's chunk = that of its parent)"""
        k = (max(len(path) - 1, 0) // self.D) * self.D
        return path[:k]

    # ---- G1 ---------------------------------------------------------------------------------
    def code_table(self):
        out = ["pub open spec fn code_%s(j: %s) -> (nat, nat) {" % (self.s, self.E), "    match j {"]
        for nm, n, l in self.codes:
            out.append("        %s::%s => (%d, %d)," % (self.E, nm, n, l))
        out += ["    }", "}"]
        # the same table as one ground fact per jet, plus the value of the code's low `len` bits; both evaluated by
        # Verus' interpreter from code_<s> (so that the per-chunk lemmas need not unfold the whole match)
        facts = []
        if self.vacuity:
            return "\n".join(out)
        for nm, n, l in self.codes:
            facts.append("pub proof fn lemma_code_%s_%s()\n    ensures\n        code_%s(%s::%s) == (%dnat, %dnat),\n        low(%d, %d) == %d,\n"
                         "{\n    assert(code_%s(%s::%s) == (%dnat, %dnat)) by (compute_only);\n    assert(low(%d, %d) == %d) by (compute_only);\n}"
                         % (self.s, nm, self.s, self.E, nm, n, l, n, l, n % (1 << l), self.s, self.E, nm, n, l, n, l, n % (1 << l)))
        return "\n".join(out) + "\n\n" + self._mods(facts, "table", 4)

    # ---- G2 ---------------------------------------------------------------------------------
    def _twin(self, t, path, root, ind):
        pad = "    " * ind
        d = len(path)
        if t[0] == "leaf":
            return "(Ok(%s), %dnat)" % (t[1], d)
        if t[0] == "invalid":
            return "(Err(decode::Error::InvalidJet), %dnat)" % d
        if path != root and self.is_cut(t, path):
            return "dec_%s__%s(p)" % (self.s, self.cname(path))
        return ("if p.len() <= %d { (Err(decode::Error::EndOfStream), %dnat) }\n%selse if !p[%d] { %s }\n%selse { %s }"
                % (d, d, pad, d, self._twin(t[1], path + "0", root, ind + 1), pad, self._twin(t[2], path + "1", root, ind + 1)))

    def twins(self):
        out = []
        for path, t in self.chunks:
            out.append("#[verifier::opaque]\npub open spec fn dec_%s__%s(p: Seq<bool>) -> (Result<%s, decode::Error>, nat) {\n    %s\n}"
                       % (self.s, self.cname(path), self.E, self._twin(t, path, path, 1)))
        out.append("/// the decision tree of `%s::decode` as a function of the pending bits: (result, bits consumed)\n"
                   "pub open spec fn dec_%s(p: Seq<bool>) -> (Result<%s, decode::Error>, nat) {\n    dec_%s__c(p)\n}" % (self.E, self.s, self.E, self.s))
        return "\n\n".join(out)

    # ---- R19 + R20 --------------------------------------------------------------------------
    def _transcribe(self, text, binds):
        """substitute the macro variables of one transcriber; `$crate::` is this crate; `.into()` on a decode::Error
        constructor is the identity conversion and is dropped (the function returns decode::Error)"""
        out = text.replace("$crate::", "")
        out = re.sub(r"(decode::Error::\w+)\.into\(\)", r"\1", out)
        for k, v in binds.items():
            out = re.sub(r"\$" + k + r"\b", lambda _m: v, out)
        return out

    def _exec(self, t, path, root, ind):
        """expansion of decode_bits!(bits, <t>) by the macro's own rules; recursive invocations inside the third
        transcriber are expanded in turn (or, at a cut, replaced by the call of the outlined sub-tree function: R20)"""
        b = self.bits
        d = len(path)
        if t[0] == "invalid":
            return self._transcribe(self.tr[0], {"bits": b})
        if t[0] == "leaf":
            return self._transcribe(self.tr[1], {"bits": b, "jet": t[1]})
        if path != root and self.is_cut(t, path):
            return "Self::decode__%s(%s, Ghost(p0_))" % (self.cname(path), b)
        text = self.tr[2]
        m = mask(text)
        out, last = [], 0
        for mt in re.finditer(r"decode_bits!\s*\(\s*\$bits\s*,\s*\$(false_branch|true_branch)\s*\)", m):
            which = mt.group(1)
            sub, sp = (t[1], path + "0") if which == "false_branch" else (t[2], path + "1")
            hint = "proof { assert(%s.pending() =~= p0_.skip(%d)); } " % (b, d + 1)
            out.append(text[last:mt.start()])
            out.append("{ " + hint + self._exec(sub, sp, root, ind + 1) + " }")
            last = mt.end()
        out.append(text[last:])
        return self._transcribe("".join(out), {"bits": b})

    def _mods(self, items, prefix, K, pre=""):
        """spread items over K modules (one solver process each: Verus verifies modules in parallel)"""
        K = max(1, min(K, len(items)))
        out = []
        for k in range(K):
            mine = items[k::K]
            out.append("pub mod %s_%s_%d {\n    use super::*;\n    use vstd::prelude::*;\n%s\n%s\n}\npub use %s_%s_%d::*;"
                       % (prefix, self.s, k, pre, "\n\n".join(mine), prefix, self.s, k))
        return "\n\n".join(out)

    def exec_chunks(self):
        """the outlined sub-tree functions (all chunks but the root, which is `decode` itself)"""
        out = []
        b = self.bits
        for path, t in self.chunks:
            if path == "":
                continue
            d = len(path)
            probe = " proof { assert(false); } /*VACUITY-PROBE %s::decode__%s @ body*/\n" % (self.E, self.cname(path)) if self.vacuity else ""
            out.append(
                "impl %s {\n"
                "    pub fn decode__%s<I: ByteSrc>(%s: &mut BitIter<I>, Ghost(p0_): Ghost<Seq<bool>>) -> (r: Result<%s, decode::Error>)\n"
                "        requires\n            old(%s).wf0(),\n            %d <= p0_.len(),\n            old(%s).pending() =~= p0_.skip(%d),\n"
                "        ensures\n            final(%s).wf0(),\n            old(%s).wf() ==> final(%s).wf(),\n            r == dec_%s__%s(p0_).0,\n"
                "            final(%s).pending() =~= p0_.skip(dec_%s__%s(p0_).1 as int),\n"
                "    {\n        hide(BitIter::pending);\n        reveal(dec_%s__%s);\n%s        %s\n    }\n}"
                % (self.E, self.cname(path), b, self.E, b, d, b, d, b, b, b, self.s, self.cname(path), b, self.s, self.cname(path), self.s, self.cname(path), probe, self._exec(t, path, path, 2)))
        return self._mods(out, "exec", self.K)

    def exec_root_body(self):
        return self._exec(self.tree, "", "", 2)

    # ---- G3: soundness ----------------------------------------------------------------------
    def _sound(self, t, path, root, ind):
        pad = "    " * ind
        d = len(path)
        v = int(path, 2) if path else 0
        if t[0] == "leaf":
            nm = t[1].split("::")[-1]
            n = self.code_of.get(nm)
            if n is None or n[1] != d:
                # the encode table has no such jet / another length: state the obligation, it fails naming the jet
                return "assert(code_%s(%s).1 == %d); /* jet %s sits at path %s */" % (self.s, t[1], d, t[1], path)
            return "lemma_code_%s_%s(); assert(low(%d, %d) == %d); /* jet %s with code (%d, %d) sits at path %s */" % (self.s, nm, n[0], d, v, t[1], n[0], d, path)
        if t[0] == "invalid":
            return ""
        if path != root and self.is_cut(t, path):
            return "lemma_sound_%s__%s(p);" % (self.s, self.cname(path))
        return ("if p.len() > %d {\n%s    if !p[%d] { assert(pval(p, %d) == %d); %s }\n%s    else { assert(pval(p, %d) == %d); %s }\n%s}"
                % (d, pad, d, d + 1, 2 * v, self._sound(t[1], path + "0", root, ind + 1), pad, d + 1, 2 * v + 1,
                   self._sound(t[2], path + "1", root, ind + 1), pad))

    def sound_lemmas(self):
        if self.vacuity:
            # the vacuity variant only probes executable code: the proof scripts are replaced by their (assumed) statements
            return ("#[verifier::external_body]\npub proof fn lemma_sound_%s__c(p: Seq<bool>)\n    ensures\n        match dec_%s__c(p) {\n"
                    "            (Ok(j), n) => n <= p.len() && code_%s(j).1 == n && low(code_%s(j).0, n) == pval(p, n),\n            (Err(_), _) => true,\n        },\n{\n}"
                    % (self.s, self.s, self.s, self.s))
        out = []
        for path, t in self.chunks:
            d = len(path)
            v = int(path, 2) if path else 0
            out.append(
                "pub proof fn lemma_sound_%s__%s(p: Seq<bool>)\n    requires\n        %d <= p.len(),\n        pval(p, %d) == %d,\n"
                "    ensures\n        match dec_%s__%s(p) {\n            (Ok(j), n) => n <= p.len() && code_%s(j).1 == n && low(code_%s(j).0, n) == pval(p, n),\n            (Err(_), _) => true,\n        },\n"
                "{\n    hide(code_%s);\n    reveal(dec_%s__%s);\n    %s\n}" % (self.s, self.cname(path), d, d, v, self.s, self.cname(path), self.s, self.s, self.s, self.s, self.cname(path), self._sound(t, path, path, 1)))
        return self._mods(out, "sound", self.K)

    # ---- G3: completeness -------------------------------------------------------------------
    def complete_lemmas(self):
        """one lemma per chunk, covering the jets whose leaf lies in it; and the family-wide dispatcher"""
        if self.vacuity:
            return ("#[verifier::external_body]\npub proof fn lemma_complete_%s(p: Seq<bool>, j: %s)\n    requires\n        code_%s(j).1 <= p.len(),\n"
                    "        pval(p, code_%s(j).1) == low(code_%s(j).0, code_%s(j).1),\n    ensures\n        dec_%s(p) == (Ok::<%s, decode::Error>(j), code_%s(j).1),\n{\n}"
                    % (self.s, self.E, self.s, self.s, self.s, self.s, self.s, self.E, self.s))
        by_chunk = {}
        missing = []
        have = set(pth for pth, _ in self.chunks)
        for nm, n, l in self.codes:
            n_low = n % (1 << l) if l < 4096 else n
            path = format(n_low, "b").zfill(l) if l > 0 else ""
            root = self.chunk_root_of(path)
            by_chunk.setdefault(root if root in have else "", []).append((nm, n, l, n_low, path))
        out = []
        for root in sorted(by_chunk, key=lambda r: (len(r), r)):
            jets = by_chunk[root]
            cond = " || ".join("j == %s::%s" % (self.E, nm) for nm, *_ in jets)
            arms = []
            for nm, n, l, n_low, path in jets:
                steps = ["lemma_code_%s_%s();" % (self.s, nm), "assert(code_%s(j) == (%dnat, %dnat) && low(%d, %d) == %d);" % (self.s, n, l, n, l, n_low)]
                v = n_low
                for k in range(l, 0, -1):
                    steps.append("assert(pval(p, %d) == %d && p[%d] == %s);" % (k - 1, v // 2, k - 1, "true" if v % 2 else "false"))
                    v //= 2
                # the chunk functions on the path, innermost first
                for k in reversed(range(0, l, self.D)):
                    if path[:k] not in have:
                        continue  # the code's path leaves the tree: only the final obligation is stated (and fails)
                    steps.append("assert(dec_%s__%s(p) == (Ok::<%s, decode::Error>(j), %dnat)) by { reveal(dec_%s__%s); }" % (self.s, self.cname(path[:k]), self.E, l, self.s, self.cname(path[:k])))
                arms.append("        %s::%s => { // code (%d, %d): path %s\n            %s\n        }" % (self.E, nm, n, l, path, "\n            ".join(steps)))
            out.append(
                "pub proof fn lemma_complete_%s__%s(p: Seq<bool>, j: %s)\n    requires\n        %s,\n        code_%s(j).1 <= p.len(),\n"
                "        pval(p, code_%s(j).1) == low(code_%s(j).0, code_%s(j).1),\n    ensures\n        dec_%s(p) == (Ok::<%s, decode::Error>(j), code_%s(j).1),\n"
                "{\n    hide(code_%s);\n    match j {\n%s\n        _ => {}\n    }\n}" % (self.s, self.cname(root), self.E, cond, self.s, self.s, self.s, self.s, self.s, self.E, self.s, self.s, "\n".join(arms)))
        out = [self._mods(out, "complete", self.K)]
        disp = []
        for root in sorted(by_chunk, key=lambda r: (len(r), r)):
            for nm, *_ in by_chunk[root]:
                disp.append("        %s::%s => lemma_complete_%s__%s(p, j)," % (self.E, nm, self.s, self.cname(root)))
        out.append(
            "/// completeness: the bits spelled by a jet's encode-table code lead the decision tree to that jet\n"
            "pub proof fn lemma_complete_%s(p: Seq<bool>, j: %s)\n    requires\n        code_%s(j).1 <= p.len(),\n"
            "        pval(p, code_%s(j).1) == low(code_%s(j).0, code_%s(j).1),\n    ensures\n        dec_%s(p) == (Ok::<%s, decode::Error>(j), code_%s(j).1),\n"
            "{\n    match j {\n%s\n    }\n}" % (self.s, self.E, self.s, self.s, self.s, self.s, self.s, self.E, self.s, "\n".join(disp)))
        return "\n\n".join(out)

    def stats(self):
        ls = list(leaves(self.tree))
        return {"jets_in_encode_table": len(self.codes), "ok_leaves_in_decode_tree": len(ls), "tree_nodes": count_nodes(self.tree),
                "chunks": len(self.chunks), "max_depth": max(len(p) for p, _ in ls), "D": self.D}
