"""Run Verus on a woven unit and turn its output into per-obligation results."""
import json
import os
import re
import subprocess
import time

from weave import weave, LostAnchor

VERUS = "verus"


class Undecided(Exception):
    """tool failure / lost anchor / rlimit: the driver exits 2, never raises an alarm"""


def _origin_of(linemap, line):
    for e in linemap:
        if e["start"] <= line <= e["end"]:
            return e["origin"]
    return {"kind": "unknown"}


TRUST_PATTERNS = [
    ("assume_specification", re.compile(r"assume_specification\s*(?:<[^>]*>\s*)?\[\s*([^\]]+?)\s*\]")),
    ("external_body", re.compile(r"#\[verifier::external_body\]\s*(?:pub\s+)?(?:proof\s+|spec\s+|exec\s+)?(?:fn|struct|type)\s+([A-Za-z0-9_]+)")),
    ("external", re.compile(r"#\[verifier::external(?:_fn_specification|_type_specification)?\]\s*(?:pub\s+)?\S+\s+([A-Za-z0-9_]+)")),
    ("assume", re.compile(r"(?<![A-Za-z0-9_])assume\s*\(([^;]*)\)\s*;")),
    ("admit", re.compile(r"(?<![A-Za-z0-9_])admit\s*\(\s*\)")),
    ("uninterp", re.compile(r"uninterp\s+spec\s+fn\s+([A-Za-z0-9_]+)")),
]


def scan_trusted(text):
    from rustscan import mask
    # strip comments only (keep strings): simple line-comment removal is enough for our generated files
    lines = []
    for l in text.split("\n"):
        k = l.find("//")
        lines.append(l if k < 0 else l[:k])
    t = "\n".join(lines)
    found = []
    for kind, pat in TRUST_PATTERNS:
        for m in pat.finditer(t):
            arg = m.group(1).strip() if m.groups() else ""
            found.append("%s: %s" % (kind, " ".join(arg.split())[:120]))
    # traits whose methods carry contracts: assumed for every type parameter bounded by them (and checked for every
    # implementation inside the unit)
    for m in re.finditer(r"pub trait (\w+)[^{;]*\{", t):
        end = t.find("\n}", m.end())
        if end > 0 and "ensures" in t[m.end():end]:
            found.append("trait_contract: %s (assumed of type parameters bounded by it)" % m.group(1))
    return sorted(set(found))


def build_unit(unit, repo, root, vacuity=False):
    """weave the unit; variant='vacuity' inserts assert(false) at the start of every
    extracted exec function body and every loop body of those functions."""
    path = os.path.join(root, "units", unit, "unit.vx")
    try:
        text, linemap, log, extracted = weave(path, repo, root, vacuity=vacuity)
    except LostAnchor as e:
        raise Undecided("lost anchor in unit %s: %s" % (unit, e))
    return text, linemap, log, extracted


def run_verus(src_path, rlimit=40, extra=None, timeout=1800, multiple_errors=8):
    cmd = [VERUS, src_path, "--output-json", "--time-expanded", "--error-format=json",
           "--multiple-errors", str(multiple_errors), "--rlimit", str(rlimit), "--num-threads", "8"]
    if extra:
        cmd += extra
    t0 = time.time()
    try:
        p = subprocess.run(cmd, capture_output=True, text=True, timeout=timeout, cwd=os.path.dirname(src_path))
    except subprocess.TimeoutExpired:
        raise Undecided("verus timed out after %ds on %s" % (timeout, src_path))
    wall = time.time() - t0
    out = p.stdout
    try:
        js = json.loads(out[out.index("{"):])
    except Exception:
        raise Undecided("verus produced no JSON (rc=%d): %s" % (p.returncode, (p.stderr or out)[-2000:]))
    diags = []
    for l in p.stderr.split("\n"):
        l = l.strip()
        if l.startswith("{"):
            try:
                d = json.loads(l)
            except Exception:
                continue
            if d.get("$message_type") == "diagnostic":
                diags.append(d)
    return js, diags, wall, " ".join(cmd), p


def analyse(js, diags, linemap, crate):
    """returns (functions: {name: {success, time_ms, mode}}, errors: [..], hard_errors: [..])"""
    vr = js.get("verification-results", {})
    funcs = {}
    try:
        for mod in js["times-ms"]["smt"]["smt-run-module-times"]:
            for f in mod.get("function-breakdown", []):
                name = f["function"]
                if name.startswith(crate + "::"):
                    name = name[len(crate) + 2:]
                # generated solver-bucket modules (jetgen._mods) are not part of an obligation's identity
                name = re.sub(r"^(?:exec|sound|complete|table)_[a-z]+_\d+::", "", name)
                prev = funcs.get(name)
                ok = bool(f.get("success"))
                if prev:
                    prev["success"] = prev["success"] and ok
                    prev["time_us"] += f.get("time-micros", 0)
                else:
                    funcs[name] = {"success": ok, "time_us": f.get("time-micros", 0), "mode": f.get("mode:", "")}
    except KeyError:
        pass
    errors, hard = [], []
    for d in diags:
        if d.get("level") != "error":
            continue
        msg = d.get("message", "")
        if msg.startswith("aborting due to"):
            continue
        spans = d.get("spans", [])
        prim = [s for s in spans if s.get("is_primary")] or spans
        line = prim[0]["line_start"] if prim else 0
        text = " ".join(t["text"].strip() for s in prim[:1] for t in s.get("text", []))[:400]
        labels = [{"line": s["line_start"], "label": s.get("label"), "text": " ".join(t["text"].strip() for t in s.get("text", []))[:200]} for s in spans]
        org = _origin_of(linemap, line) if line else {"kind": "unknown"}
        e = {"message": msg, "line": line, "text": text, "origin": org, "labels": labels, "rendered": d.get("rendered", "")[:3000]}
        if re.search(r"rlimit|Resource limit|resource limit|timed out", msg):
            e["rlimit"] = True
            hard.append(e)
        elif d.get("code") or not js.get("verification-results") or vr.get("encountered-vir-error"):
            hard.append(e)
        elif re.search(r"not supported|does not yet support|cannot find|mismatched types|expected|unresolved|panicked", msg):
            hard.append(e)
        else:
            errors.append(e)
    return funcs, errors, hard, vr


def enclosing_fn(text, line):
    """name of the fn whose item encloses `line` in the generated file (nearest preceding
    'fn name' at lower brace depth) — used to attribute an error to a function."""
    lines = text.split("\n")
    pat = re.compile(r"^\s*(?:pub\s+)?(?:open\s+|closed\s+|uninterp\s+)?(?:proof\s+|spec\s+|exec\s+)?(?:broadcast\s+)?fn\s+([A-Za-z0-9_]+)")
    for i in range(min(line, len(lines)) - 1, -1, -1):
        m = pat.match(lines[i])
        if m:
            return m.group(1)
    return "?"
