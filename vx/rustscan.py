"""Token-aware scanner for Rust source: locates whole items (fn / struct / enum /
const / impl / trait / macro_rules) by name and returns their exact byte spans.

It never re-types code: callers slice the original text with the spans returned here.
Handles // and /* */ (nested) comments, "..." / b"..." / r#"..."# strings, char
literals vs lifetimes, and brace/paren/bracket nesting.
"""
import re


class ScanError(Exception):
    pass


def mask(src):
    """Return a same-length string in which comment and string/char literal *contents*
    are replaced by spaces (newlines kept), so structural regexes and bracket matching
    can run on it."""
    out = list(src)
    i, n = 0, len(src)

    def blank(a, b):
        for k in range(a, b):
            if out[k] != "\n":
                out[k] = " "

    while i < n:
        c = src[i]
        if c == "/" and i + 1 < n and src[i + 1] == "/":
            j = src.find("\n", i)
            j = n if j < 0 else j
            blank(i, j)
            i = j
        elif c == "/" and i + 1 < n and src[i + 1] == "*":
            depth, j = 1, i + 2
            while j < n and depth:
                if src.startswith("/*", j):
                    depth += 1
                    j += 2
                elif src.startswith("*/", j):
                    depth -= 1
                    j += 2
                else:
                    j += 1
            blank(i, j)
            i = j
        elif c == '"' or (c in "br" and re.match(r'(b?r#*"|b")', src[i:i + 12]) and (i == 0 or not (src[i - 1].isalnum() or src[i - 1] == "_"))):
            m = re.match(r'b?r(#*)"', src[i:i + 12])
            if m:
                hashes = m.group(1)
                start = i + m.end()
                end = src.find('"' + hashes, start)
                if end < 0:
                    raise ScanError("unterminated raw string")
                blank(start, end)
                i = end + 1 + len(hashes)
            else:
                j = i + (2 if c == "b" else 1)
                start = j
                while j < n and src[j] != '"':
                    j += 2 if src[j] == "\\" else 1
                blank(start, j)
                i = j + 1
        elif c == "'":
            # char literal or lifetime
            m = re.match(r"'(\\.[^']*|[^\\'])'", src[i:i + 14])
            if m:
                blank(i + 1, i + m.end() - 1)
                i += m.end()
            else:
                i += 1
        elif c == "b" and src.startswith("b'", i) and (i == 0 or not (src[i - 1].isalnum() or src[i - 1] == "_")):
            m = re.match(r"b'(\\.[^']*|[^\\'])'", src[i:i + 14])
            if m:
                blank(i + 2, i + m.end() - 1)
                i += m.end()
            else:
                i += 1
        else:
            i += 1
    return "".join(out)


OPEN = {"{": "}", "(": ")", "[": "]"}
CLOSE = {v: k for k, v in OPEN.items()}


def match_close(m, i):
    """m: masked text, i: index of an opening bracket. Returns index of its closer."""
    stack = []
    n = len(m)
    j = i
    while j < n:
        c = m[j]
        if c in OPEN:
            stack.append(c)
        elif c in CLOSE:
            if not stack or stack[-1] != CLOSE[c]:
                raise ScanError("bracket mismatch at %d" % j)
            stack.pop()
            if not stack:
                return j
        j += 1
    raise ScanError("unclosed bracket at %d" % i)


def _item_end(m, start):
    """From `start` (beginning of an item's keyword) find the end of the item: the
    matching '}' of its first top-level '{', or the first top-level ';'."""
    j = start
    n = len(m)
    while j < n:
        c = m[j]
        if c in "([":
            j = match_close(m, j) + 1
            continue
        if c == "{":
            return match_close(m, j) + 1
        if c == ";":
            return j + 1
        j += 1
    raise ScanError("item end not found")


def _const_end(m, start):
    """const/static items end at the first ';' outside all brackets."""
    j, n = start, len(m)
    while j < n:
        c = m[j]
        if c in "([{":
            j = match_close(m, j) + 1
            continue
        if c == ";":
            return j + 1
        j += 1
    raise ScanError("const end not found")


def _attr_start(src, m, start, lo):
    """Extend `start` backwards over attributes (#[..]) and doc comments directly
    preceding the item (not below `lo`)."""
    lines_start = src.rfind("\n", lo, start) + 1
    if src[lines_start:start].strip() != "":
        return start
    cur = lines_start
    while cur > lo:
        prev = src.rfind("\n", lo, cur - 1) + 1
        line = src[prev:cur].strip()
        if line.startswith("#[") or line.startswith("///") or line.startswith("//!"):
            cur = prev
        else:
            break
    return cur


VIS = r"(?:pub(?:\s*\([^)]*\))?\s+)?"
QUAL = r"(?:const\s+|async\s+|unsafe\s+|extern\s+\"[^\"]*\"\s+)*"


def find_items(src, m, kind, name, lo=0, hi=None):
    """All top-level-in-[lo,hi) items of `kind` named `name`. Returns list of
    (start, end) spans *including* visibility, excluding attributes."""
    hi = len(src) if hi is None else hi
    if kind == "fn":
        pat = re.compile(r"(?<![A-Za-z0-9_])" + VIS + QUAL + r"fn\s+" + re.escape(name) + r"(?![A-Za-z0-9_])")
    elif kind in ("struct", "enum", "trait", "type", "union"):
        pat = re.compile(r"(?<![A-Za-z0-9_])" + VIS + kind + r"\s+" + re.escape(name) + r"(?![A-Za-z0-9_])")
    elif kind == "const":
        pat = re.compile(r"(?<![A-Za-z0-9_])" + VIS + r"(?:const|static)\s+" + re.escape(name) + r"(?![A-Za-z0-9_])")
    elif kind == "macro":
        pat = re.compile(r"macro_rules!\s*" + re.escape(name) + r"(?![A-Za-z0-9_])")
    else:
        raise ScanError("unknown kind " + kind)
    res = []
    for mt in pat.finditer(m, lo, hi):
        s = mt.start()
        if depth_between(m, lo, s) != 0:
            continue
        e = _const_end(m, mt.end()) if kind == "const" else _item_end(m, mt.end())
        res.append((s, e))
    return res


def depth_between(m, lo, pos):
    d = 0
    for c in m[lo:pos]:
        if c == "{":
            d += 1
        elif c == "}":
            d -= 1
    return d


def find_impls(src, m, header_substr, lo=0, hi=None):
    """impl blocks whose header (text between 'impl' and '{', whitespace-normalised)
    contains header_substr (whitespace-normalised). Returns (start, body_lo, body_hi, end)."""
    hi = len(src) if hi is None else hi
    want = " ".join(header_substr.split())
    res = []
    for mt in re.finditer(r"(?<![A-Za-z0-9_])(?:unsafe\s+)?impl(?![A-Za-z0-9_])", m[:hi]):
        s = mt.start()
        if s < lo or depth_between(m, lo, s) != 0:
            continue
        j = s
        # find the body '{' at bracket depth 0 (skip generics' parens etc.)
        k = mt.end()
        while k < hi and m[k] != "{":
            if m[k] in "([":
                k = match_close(m, k)
            elif m[k] == ";":
                break
            k += 1
        if k >= hi or m[k] != "{":
            continue
        header = " ".join(src[s:k].split())
        if want == header or (want in header and not header_substr.startswith("=")):
            e = match_close(m, k)
            res.append((s, k + 1, e, e + 1, header))
    return res


class Source:
    def __init__(self, path, text):
        self.path = path
        self.text = text
        self.m = mask(text)

    def line_of(self, pos):
        return self.text.count("\n", 0, pos) + 1

    def locate(self, selector):
        """selector: ' / '-separated steps, each 'impl[<header substr>]' ('=' prefix: exact header),
        'mod:<name>', 'fn:<name>', 'struct:<name>', 'enum:<name>', 'const:<name>', 'trait:<name>',
        'macro:<name>'. Intermediate steps narrow the search range to the item body. When several impl
        blocks match a step, all are searched and the remaining steps must resolve in exactly one of them.
        Returns (start, end) of the last step's item. Ambiguity or absence -> ScanError."""
        steps = split_selector(selector)
        res = self._locate(steps, 0, len(self.text))
        if len(res) != 1:
            raise ScanError("%s: selector '%s' matched %d items" % (self.path, selector, len(res)))
        return res[0]

    def _locate(self, steps, lo, hi):
        st = steps[0]
        rest = steps[1:]
        out = []
        if st.startswith("impl["):
            hdr = st[5:-1]
            exact = hdr.startswith("=")
            cands = find_impls(self.text, self.m, hdr.lstrip("="), lo, hi)
            if exact:
                w = " ".join(hdr[1:].split())
                cands = [c for c in cands if c[4] == w]
            for s, blo, bhi, e, _ in cands:
                if not rest:
                    out.append((s, e))
                else:
                    out += self._locate(rest, blo, bhi)
            return out
        kind, _, name = st.partition(":")
        if kind == "mod":
            pat = re.compile(r"(?<![A-Za-z0-9_])" + VIS + r"mod\s+" + re.escape(name) + r"\s*\{")
            for mt in pat.finditer(self.m, lo, hi):
                if depth_between(self.m, lo, mt.start()) != 0:
                    continue
                b = mt.end() - 1
                e = match_close(self.m, b)
                if not rest:
                    out.append((mt.start(), e + 1))
                else:
                    out += self._locate(rest, b + 1, e)
            return out
        for span in find_items(self.text, self.m, kind, name, lo, hi):
            if not rest:
                out.append(span)
            else:
                b = self.m.find("{", span[0], span[1])
                out += self._locate(rest, b + 1, span[1] - 1)
        return out


def split_selector(sel):
    """Steps are separated by ' / ' (space-slash-space)."""
    return [x.strip() for x in sel.split(" / ") if x.strip()]


def fn_parts(text, m=None):
    """Split an fn item's text into (signature, body) where body starts at the '{'
    that opens the function body."""
    m = mask(text) if m is None else m
    j = 0
    n = len(m)
    # skip to after 'fn name'
    mt = re.search(r"fn\s+[A-Za-z0-9_]+", m)
    j = mt.end()
    while j < n:
        c = m[j]
        if c in "([":
            j = match_close(m, j) + 1
            continue
        if c == "<":
            j = _skip_angle(m, j)
            continue
        if c == "{":
            return text[:j], text[j:]
        j += 1
    raise ScanError("fn body not found")


def _skip_angle(m, j):
    depth = 0
    n = len(m)
    while j < n:
        c = m[j]
        if c == "<":
            depth += 1
        elif c == ">" and m[j - 1] != "-" and m[j - 1] != "=":
            depth -= 1
            if depth == 0:
                return j + 1
        elif c in "([":
            j = match_close(m, j)
        elif c in "{;":
            return j  # not generics after all
        j += 1
    return j


LOOP_RE = re.compile(r"(?<![A-Za-z0-9_'])(loop|while|for)(?![A-Za-z0-9_])")


def find_loops(body, mb=None):
    """Return, in source order, (kw_pos, brace_pos) for every loop in `body`
    (including nested ones). brace_pos = index of the '{' opening the loop body."""
    mb = mask(body) if mb is None else mb
    res = []
    for mt in LOOP_RE.finditer(mb):
        kw = mt.group(1)
        j = mt.end()
        if kw == "for":
            # skip `for<'a>` HRTB
            k = j
            while k < len(mb) and mb[k].isspace():
                k += 1
            if k < len(mb) and mb[k] == "<":
                continue
        n = len(mb)
        while j < n:
            c = mb[j]
            if c in "([":
                j = match_close(mb, j) + 1
                continue
            if c == "{":
                # `while let Some(x) = y {`: struct-literal braces are not allowed in
                # loop heads without parens, so the first depth-0 '{' is the body.
                res.append((mt.start(), j))
                break
            if c == ";":
                break
            j += 1
    return res
