"""Weaver: turns a unit description (units/<u>/unit.vx) into one Verus file whose
executable text is extracted from /repo on the spot.

Unit syntax: ordinary Verus text, copied verbatim, interleaved with directives:

  //@include <path relative to /verif>
  //@watch <repo file> :: <selector> <sha>   a function NOT under contract: a change of its text makes the run undecided
  //@template <path relative to /verif> KEY=VALUE ...   include a unit template ({{KEY}} replaced), directives inside are processed
  //@extract <repo-relative file> :: <selector>        (selector: see rustscan.Source.locate)
     //@as <name>                 obligation name used in reports (default: selector tail)
     //@ret <ident>               name the return value:  -> T   ==>  -> (ident: T)
     //@pub                       R4: make the item and its fields `pub`
     //@attrs                     keep the item's attributes/doc comments (default: dropped)
     //@sub <Rk> <count> "<from>" => "<to>"      literal rewrite, must match exactly <count> times
     //@resub <Rk> <count> /<regex>/ => "<to>"   regex rewrite, same
     //@altsub / //@altresub ...    alternative spelling for the rule just before it: tried only if that one matched nothing
     //@assert_exec               R3 variant: `assert!(c)` => `{ let __cond = c; assert(__cond) }` (c evaluated in exec mode)
     //@noauto                    do not apply the automatic rules (R2, R3)
     //@sigonly                   emit only the signature + spec, terminated by ';' (trait methods)
     //@attrs derive              keep only the item's #[derive(..)] attributes
     //@pin <sha>                 with replace_body: the assumption is tied to this body text (hash); a changed body => undecided
     //@replace_body              R8: keep the signature, drop the body (`unimplemented!()`), mark external_body: contract ASSUMED
     //@expand_decode_bits <file> <Enum> <suffix> <D>   R19+R20: expand the `decode_bits!` invocation following the macro's rules, outlined every D levels (jetgen.py)
     //@vattr <attr>              emit `#[verifier::<attr>]` before the fn (verifier-only, e.g. rlimit(80))
     //@external_body             emit `#[verifier::external_body]` before the item (body kept, not verified)
     //@hoist <kind>:<name>       R14: remove a nested item from the body (extract it separately)
     //@spec                      following lines go between signature and body
     //@loop <n>                  following lines go before the '{' of the n-th loop (source order, 1-based)
     //@afterloop <n>             following lines go right after the closing '}' of the n-th loop
     //@loopend <n>               following lines go at the end of the n-th loop's body (before its closing '}')
     //@bodystart                 following lines go right after the body's opening '{'
     //@loop? / //@afterloop? / //@loopend? / //@before? / //@after?   optional variants: dropped when the target is absent
     //@before <n> "<substr>"     (a substr starting with ^ matches the n-th line that *starts* with the rest) following lines go before the line containing the n-th occurrence of substr
     //@after  <n> "<substr>"     ... after the *statement line* containing it
  //@end

Every rewrite applied is logged (rule id, source file:line, before, after). A rule
whose match count differs from the declared one, or a selector/anchor that does not
resolve, raises LostAnchor (the driver turns that into exit 2, never a VIOLATION).
"""
import hashlib
import os
import re

from rustscan import Source, ScanError, mask, match_close, fn_parts, find_loops


class LostAnchor(Exception):
    pass


def _split_args(m, text, lo, hi):
    """Split text[lo:hi] at top-level commas using mask m."""
    parts, depth, cur = [], 0, lo
    j = lo
    while j < hi:
        c = m[j]
        if c in "([{":
            j = match_close(m, j)
        elif c == ",":
            parts.append(text[cur:j])
            cur = j + 1
        j += 1
    last = text[cur:hi]
    if last.strip():
        parts.append(last)
    return [p.strip() for p in parts]


AUTO_MACROS = ["debug_assert_eq", "debug_assert_ne", "debug_assert", "assert_eq", "assert_ne", "assert", "unreachable"]


def auto_rules(text, log, where, exec_eval=False):
    """R3: run-time assertion macros become proof obligations; R2: `_` closure params
    and `for _ in` get fresh names."""
    # R3
    while True:
        m = mask(text)
        mt = None
        for mac in AUTO_MACROS:
            mt = re.search(r"(?<![A-Za-z0-9_])" + mac + r"!\s*\(", m)
            if mt:
                name = mac
                break
        if not mt:
            break
        op = mt.end() - 1
        cl = match_close(m, op)
        args = _split_args(m, text, op + 1, cl)
        if name in ("assert", "debug_assert") and exec_eval:
            # the condition is evaluated as executable code (so calls to exec-only std functions are
            # allowed and its own arithmetic is overflow-checked), then asserted
            new = "{ let __cond = %s; assert(__cond) }" % args[0]
        elif name in ("assert", "debug_assert"):
            new = "assert(%s)" % args[0]
        elif name in ("assert_eq", "debug_assert_eq") and exec_eval:
            new = "{ let __l = %s; let __r = %s; assert(__l == __r) }" % (args[0], args[1])
        elif name in ("assert_eq", "debug_assert_eq"):
            new = "assert(%s == %s)" % (args[0], args[1])
        elif name in ("assert_ne", "debug_assert_ne"):
            new = "assert(%s != %s)" % (args[0], args[1])
        else:
            new = "{ assert(false); vstd::pervasive::unreached() }"
        log.append({"rule": "R3", "where": where, "before": text[mt.start():cl + 1], "after": new})
        text = text[:mt.start()] + new + text[cl + 1:]
    # R2
    def r2(pat, repl, text):
        m = mask(text)
        out, last, cnt = [], 0, 0
        for mt in re.finditer(pat, m):
            out.append(text[last:mt.start()])
            new = repl(mt, cnt)
            log.append({"rule": "R2", "where": where, "before": text[mt.start():mt.end()], "after": new})
            out.append(new)
            last = mt.end()
            cnt += 1
        out.append(text[last:])
        return "".join(out)
    # unnamed fn parameters `_: T` get names (signature part only)
    msig = re.match(r"\s*(?:pub(?:\s*\([^)]*\))?\s+)?(?:const\s+|unsafe\s+)*fn\s", text)
    if msig:
        try:
            sig_, body_ = fn_parts(text)
            cnt = [0]
            def nm(mt):
                cnt[0] += 1
                new = mt.group(1) + "_p%d:" % cnt[0]
                log.append({"rule": "R2", "where": where, "before": "_:", "after": "_p%d:" % cnt[0]})
                return new
            sig2 = re.sub(r"([(,]\s*)_\s*:", nm, sig_)
            text = sig2 + body_
        except Exception:
            pass
    text = r2(r"\|_\|", lambda mt, k: "|_e%d|" % k, text)
    text = r2(r"(?<![A-Za-z0-9_])for _ in(?![A-Za-z0-9_])", lambda mt, k: "for _i%d in" % k, text)
    return text


def name_return(sig, ident):
    m = mask(sig)
    # find '->' at depth 0 after the parameter list
    mt = re.search(r"fn\s+[A-Za-z0-9_]+", m)
    j = mt.end()
    n = len(m)
    while j < n and m[j] != "(":
        if m[j] == "<":
            from rustscan import _skip_angle
            j = _skip_angle(m, j)
            continue
        j += 1
    j = match_close(m, j) + 1
    arrow = m.find("->", j)
    if arrow < 0:
        raise LostAnchor("no return type to name in: " + sig.strip()[:80])
    w = re.search(r"(?<![A-Za-z0-9_])where(?![A-Za-z0-9_])", m[arrow:])
    end = arrow + w.start() if w else n
    ty = sig[arrow + 2:end].strip()
    tail = sig[end:]
    return sig[:arrow] + "-> (%s: %s)" % (ident, ty) + ("\n" + tail if tail.strip() else "\n")


def make_pub(text):
    """R4: `pub` on the item and on every named field of a struct."""
    m = mask(text)
    out = text
    kw = re.search(r"(?<![A-Za-z0-9_])(struct|enum|fn|const|static|trait|type)(?![A-Za-z0-9_])", m)
    head = text[:kw.start()]
    if "pub" not in head:
        out = text[:kw.start()] + "pub " + text[kw.start():]
    elif re.search(r"pub\s*\([^)]*\)", head):
        out = re.sub(r"pub\s*\([^)]*\)", "pub", head) + text[kw.start():]
    if kw.group(1) == "struct":
        m2 = mask(out)
        b = m2.find("{")
        semi = m2.find(";")
        if b >= 0 and (semi < 0 or b < semi):
            e = match_close(m2, b)
            body = out[b + 1:e]
            mb = m2[b + 1:e]
            # fields: at depth 0, `name:` at the start of a line/after comma
            res, last, depth = [], 0, 0
            for mt in re.finditer(r"(^|\n)(\s*)((?:pub(?:\s*\([^)]*\))?\s+)?)([A-Za-z_][A-Za-z0-9_]*)\s*:", mb):
                if _depth(mb, mt.start()) != 0:
                    continue
                res.append(body[last:mt.start()])
                res.append(mt.group(1) + mt.group(2) + "pub " + body[mt.start(4):mt.end()])
                last = mt.end()
            res.append(body[last:])
            out = out[:b + 1] + "".join(res) + out[e:]
        elif b < 0 or (semi >= 0 and semi < b):
            # tuple struct
            p = m2.find("(")
            if p >= 0:
                e = match_close(m2, p)
                fields = _split_args(m2, out, p + 1, e)
                fields = [f if f.startswith("pub") else "pub " + f for f in fields]
                out = out[:p + 1] + ", ".join(fields) + out[e:]
    return out


def _depth(m, pos):
    d = 0
    for c in m[:pos]:
        if c in "{([":
            d += 1
        elif c in "})]":
            d -= 1
    return d


def watch_status(repo, relf, sel, want):
    """None if the function's whitespace-normalised text still has the recorded hash, else a message"""
    try:
        srcw = Source(relf, open(os.path.join(repo, relf)).read())
        ws, we = srcw.locate(sel)
    except (OSError, ScanError) as ex:
        return "watch %s :: %s: %s" % (relf, sel, ex)
    got = hashlib.sha256(" ".join(srcw.text[ws:we].split()).encode()).hexdigest()[:len(want)]
    if got != want:
        return ("watched function %s :: %s has changed (hash %s, recorded %s): it is not under contract, so nothing is decided about the new text" % (relf, sel, got, want))
    return None


_FAMILIES = {}


def jet_family(repo, relf, enum_name, suffix, D, vacuity):
    """parse encode/decode of one jet family from the repository (cached per weave call by the caller)"""
    import jetgen
    key = (repo, relf, enum_name, suffix, D, vacuity)
    if key in _FAMILIES:
        return _FAMILIES[key]
    try:
        src = Source(relf, open(os.path.join(repo, relf)).read())
        es, ee = src.locate("impl[=impl Jet for %s] / fn:encode" % enum_name)
        ds, de = src.locate("impl[=impl Jet for %s] / fn:decode" % enum_name)
        msrc = Source("src/macros.rs", open(os.path.join(repo, "src/macros.rs")).read())
        ms, me = msrc.locate("macro:decode_bits")
    except (OSError, ScanError) as ex:
        raise LostAnchor("jet family %s: %s" % (enum_name, ex))
    try:
        transcribers = jetgen.parse_macro(msrc.text[ms:me])
        fam = jetgen.Family(enum_name, suffix, src.text[es:ee], src.text[ds:de], transcribers, D=D, vacuity=vacuity)
    except (jetgen.GenError, ValueError) as ex:
        raise LostAnchor("jet family %s: %s" % (enum_name, ex))
    fam.where_encode = "%s:%d" % (relf, src.line_of(es))
    fam.where_decode = "%s:%d" % (relf, src.line_of(ds))
    _FAMILIES[key] = fam
    return fam


def _count_ok(found, count):
    """declared count: an exact number, '+' (at least one) or '*' (any)"""
    if count == "+":
        return found >= 1
    if count == "*":
        return True
    return found == int(count)


class Chunk:
    def __init__(self, text, origin):
        self.text = text if text.endswith("\n") else text + "\n"
        self.origin = origin


def _read_block(lines, i):
    """collect lines until the next //@ directive"""
    out = []
    while i < len(lines) and not lines[i].lstrip().startswith("//@"):
        out.append(lines[i])
        i += 1
    return out, i


def weave(unit_path, repo, verif_root, vacuity=False):
    _FAMILIES.clear()
    lines = []
    for ln in open(unit_path).read().split("\n"):
        if ln.strip().startswith("//@template "):
            # //@template <path relative to /verif> KEY=VALUE ... : the file's lines with {{KEY}} replaced, processed as unit text
            parts = ln.strip().split()
            ttext = open(os.path.join(verif_root, parts[1])).read()
            for kv in parts[2:]:
                k_, v_ = kv.split("=", 1)
                ttext = ttext.replace("{{%s}}" % k_, v_)
            lines += ttext.split("\n")
        else:
            lines.append(ln)
    chunks, log, extracted = [], [], []
    sources = {}
    i = 0
    while i < len(lines):
        ln = lines[i]
        s = ln.strip()
        if s.startswith("//@include "):
            p = os.path.join(verif_root, s[len("//@include "):].strip())
            chunks.append(Chunk(open(p).read(), {"kind": "include", "path": p}))
            i += 1
        elif s.startswith("//@watch "):
            # //@watch <repo file> :: <selector> <sha256 prefix> : a function that is NOT under contract but whose behaviour
            # the property depends on. Its text is hashed (whitespace-normalised); any change makes the run undecided (and
            # so triggers the property's bounded fallbacks) instead of passing silently.
            mt = re.match(r"//@watch\s+(\S+)\s+::\s+(.*?)\s+([0-9a-f]{8,64}|\?)\s*$", s)
            if not mt:
                raise LostAnchor("%s:%d: bad watch directive" % (unit_path, i + 1))
            relf, sel, want = mt.group(1), mt.group(2), mt.group(3)
            try:
                srcw = Source(relf, open(os.path.join(repo, relf)).read())
                ws, we = srcw.locate(sel)
            except (OSError, ScanError) as ex:
                raise LostAnchor("watch %s :: %s: %s" % (relf, sel, ex))
            got = hashlib.sha256(" ".join(srcw.text[ws:we].split()).encode()).hexdigest()[:len(want) if want != "?" else 16]
            if want != got:
                raise LostAnchor("watched function %s :: %s has changed (hash %s, recorded %s): it is not under contract, so nothing is decided about the new text" % (relf, sel, got, want))
            log.append({"rule": "watch", "where": "%s:%d" % (relf, srcw.line_of(ws)), "fn": sel, "before": "sha256 %s" % got, "after": "unchanged (not under contract)"})
            i += 1
        elif s.startswith("//@census "):
            # //@census <count> <glob relative to repo> /<regex>/ : the number of matches in the repository must be
            # exactly <count>; otherwise something this unit enumerates has appeared or vanished (lost anchor)
            mt = re.match(r"//@census\s+(\d+)\s+(\S+)\s+/(.*)/\s*$", s)
            if not mt:
                raise LostAnchor("%s:%d: bad census directive" % (unit_path, i + 1))
            import glob
            want, pat, rx = int(mt.group(1)), mt.group(2), re.compile(mt.group(3), re.S)
            found, hits = 0, []
            for fpath in sorted(glob.glob(os.path.join(repo, pat), recursive=True)):
                txt = open(fpath).read()
                for m_ in rx.finditer(txt):
                    found += 1
                    hits.append("%s:%d" % (os.path.relpath(fpath, repo), txt.count("\n", 0, m_.start()) + 1))
            if found != want:
                raise LostAnchor("census /%s/ in %s: %d matches, expected %d (%s)" % (mt.group(3), pat, found, want, ", ".join(hits)))
            log.append({"rule": "census", "where": pat, "fn": "-", "before": mt.group(3), "after": "%d matches: %s" % (found, ", ".join(hits))})
            i += 1
        elif s.startswith("//@gen jetfamily "):
            # //@gen jetfamily <repo file> <Enum> <suffix> <D> <part>   (see jetgen.py: G1, G2, R20, G3)
            _, _, relf, enum_name, suffix, D_, part = s.split()
            fam = jet_family(repo, relf, enum_name, suffix, int(D_), vacuity)
            gen = {"table": fam.code_table, "twins": fam.twins, "chunks": fam.exec_chunks, "sound": fam.sound_lemmas, "complete": fam.complete_lemmas}[part]
            rule = {"table": "G1", "twins": "G2", "chunks": "R20", "sound": "G3", "complete": "G3"}[part]
            chunks.append(Chunk(gen(), {"kind": "generated", "what": "jet family %s: %s" % (enum_name, part), "file": relf,
                                        "line": int((fam.where_encode if part == "table" else fam.where_decode).split(":")[1])}))
            log.append({"rule": rule, "where": fam.where_encode if part == "table" else fam.where_decode, "fn": "%s::%s" % (enum_name, "encode" if part == "table" else "decode"),
                        "before": str(fam.stats()), "after": "generated part `%s`" % part})
            i += 1
        elif s.startswith("//@gen codetable "):
            # //@gen codetable <repo file> <Enum> <suffix>: copy the (n, len) table of `fn encode` of that jet family
            # into a spec function `code_<suffix>(j) -> (nat, nat)` — the table text itself, arm by arm
            _, _, relf, enum_name, suffix = s.split()
            srcg = Source(relf, open(os.path.join(repo, relf)).read())
            try:
                gs, ge = srcg.locate("impl[=impl Jet for %s] / fn:encode" % enum_name)
            except ScanError as ex:
                raise LostAnchor(str(ex))
            body = srcg.text[gs:ge]
            arms = re.findall(r"%s::(\w+)\s*=>\s*\((\d+),\s*(\d+)\)," % enum_name, body)
            if not arms or not re.search(r"w\.write_bits_be\(n, len\)", body):
                raise LostAnchor("%s: encode table of %s not in the expected `(n, len)` + write_bits_be(n, len) form" % (relf, enum_name))
            n_variants = len(re.findall(r"%s::\w+\s*=>" % enum_name, body))
            if n_variants != len(arms):
                raise LostAnchor("%s: %d encode arms but %d parsed" % (relf, n_variants, len(arms)))
            out_ = ["pub open spec fn code_%s(j: %s) -> (nat, nat) {" % (suffix, enum_name), "    match j {"]
            for nm, n_, l_ in arms:
                out_.append("        %s::%s => (%s, %s)," % (enum_name, nm, n_, l_))
            out_ += ["    }", "}"]
            chunks.append(Chunk("\n".join(out_), {"kind": "generated", "what": "code table of %s::encode (%d arms)" % (enum_name, len(arms)), "file": relf, "line": srcg.line_of(gs)}))
            log.append({"rule": "G1", "where": "%s:%d" % (relf, srcg.line_of(gs)), "fn": "%s::encode" % enum_name, "before": "%d match arms" % len(arms), "after": "spec fn code_%s (same arms)" % suffix})
            i += 1
        elif s.startswith("//@use "):
            # //@use <unit> <obligation name> : import an extract block of another unit with its contract ASSUMED
            # (external_body): the contract is proved in that unit, here it is a trusted callee contract
            parts = s[len("//@use "):].split()
            ounit, oname = parts[0], " ".join(parts[1:])
            otext = open(os.path.join(verif_root, "units", ounit, "unit.vx")).read().split("\n")
            k = None
            for j, l in enumerate(otext):
                if l.strip() == "//@as " + oname:
                    k = j
                    break
            if k is None:
                raise LostAnchor("//@use: %s has no block named %s" % (ounit, oname))
            st = k
            while not otext[st].strip().startswith("//@extract "):
                st -= 1
            en = k
            while otext[en].strip() != "//@end":
                en += 1
            block = otext[st:en + 1]
            # re-parse that block through the normal path, forcing the assumed (lenient) emission
            lines[i:i + 1] = block[:1] + ["//@assumed " + ounit] + block[1:]
            continue
        elif s.startswith("//@extract "):
            spec = s[len("//@extract "):]
            relfile, _, selector = spec.partition(" :: ")
            relfile, selector = relfile.strip(), selector.strip()
            i += 1
            opts = {"as": None, "ret": None, "pub": False, "attrs": False, "subs": [], "noauto": False,
                    "sigonly": False, "external_body": False, "spec": [], "loops": {}, "afterloops": {}, "loopends": {}, "anchors": [], "hoist": [], "replace_body": False, "assumed_from": None, "derive_keep": None, "vattrs": []}
            while i < len(lines):
                t = lines[i].strip()
                if t == "//@end":
                    i += 1
                    break
                if not t.startswith("//@"):
                    if t == "":
                        i += 1
                        continue
                    raise LostAnchor("%s:%d: stray text inside extract block" % (unit_path, i + 1))
                d = t[3:].strip()
                i += 1
                if d.startswith("as "):
                    opts["as"] = d[3:].strip()
                elif d.startswith("ret "):
                    opts["ret"] = d[4:].strip()
                elif d == "pub":
                    opts["pub"] = True
                elif d == "attrs":
                    opts["attrs"] = True
                elif d == "attrs derive" or d.startswith("attrs derive "):
                    opts["attrs"] = "derive"
                    opts["derive_keep"] = [x.strip() for x in d[len("attrs derive"):].split(",") if x.strip()]
                elif d == "replace_body":
                    opts["replace_body"] = True
                elif d.startswith("pin "):
                    # //@pin <sha256 prefix of the whitespace-normalised body>: the ASSUMED contract of a replace_body /
                    # external function was written for exactly this body; if the body changes the assumption no longer
                    # applies and the function is reported undecided (its fallbacks run)
                    opts["pin"] = d[4:].strip()
                elif d == "noauto":
                    opts["noauto"] = True
                elif d == "assert_exec":
                    opts["assert_exec"] = True
                elif d == "sigonly":
                    opts["sigonly"] = True
                elif d == "external_body":
                    opts["external_body"] = True
                elif d.startswith("expand_decode_bits "):
                    opts["expand_decode_bits"] = d.split()[1:]
                elif d.startswith("vattr "):
                    opts["vattrs"].append(d[6:].strip())
                elif d.startswith("assumed "):
                    opts["assumed_from"] = d[8:].strip()
                elif d.startswith("hoist "):
                    opts["hoist"].append(d[6:].strip())
                elif d.startswith("sub ") or d.startswith("resub ") or d.startswith("altsub ") or d.startswith("altresub "):
                    is_alt = d.startswith("alt")
                    if is_alt:
                        d = d[3:]
                    mt = re.match(r'(re)?sub\s+(\S+)\s+(\d+|\+|\*)\s+(".*?"|/.*?/)\s+=>\s+"(.*)"\s*$', d)
                    if not mt:
                        raise LostAnchor("%s:%d: bad sub directive" % (unit_path, i))
                    frm = mt.group(4)[1:-1]
                    to = mt.group(5).replace("\\n", "\n").replace('\\"', '"')
                    frm = frm.replace('\\"', '"') if not mt.group(1) else frm
                    opts["subs"].append((bool(mt.group(1)), mt.group(2), mt.group(3), frm, to, is_alt))
                elif d == "spec":
                    blk, i = _read_block(lines, i)
                    opts["spec"] += blk
                elif d.startswith("loop? ") or d.startswith("afterloop? ") or d.startswith("loopend? "):
                    # optional variants: if the function has fewer loops, the annotation is dropped (the proof then has
                    # to stand without it, or fail) instead of the anchor being reported lost
                    kind_, n_ = d.split("? ")
                    blk, i = _read_block(lines, i)
                    opts[{"loop": "loops", "afterloop": "afterloops", "loopend": "loopends"}[kind_]][int(n_.strip())] = blk
                    opts.setdefault("optional_loops", set()).add(int(n_.strip()))
                elif d.startswith("loop "):
                    blk, i = _read_block(lines, i)
                    opts["loops"][int(d[5:].strip())] = blk
                elif d == "bodystart":
                    blk, i = _read_block(lines, i)
                    opts["bodystart"] = blk
                elif d.startswith("afterloop "):
                    blk, i = _read_block(lines, i)
                    opts["afterloops"][int(d[10:].strip())] = blk
                elif d.startswith("loopend "):
                    blk, i = _read_block(lines, i)
                    opts["loopends"][int(d[8:].strip())] = blk
                elif d.startswith("before ") or d.startswith("after ") or d.startswith("before? ") or d.startswith("after? "):
                    mt = re.match(r'(before|after)(\?)?\s+(\d+)\s+"(.*)"\s*$', d)
                    if not mt:
                        raise LostAnchor("%s:%d: bad anchor directive" % (unit_path, i))
                    blk, i = _read_block(lines, i)
                    opts["anchors"].append((mt.group(1), int(mt.group(3)), mt.group(4).replace('\\"', '"'), blk, bool(mt.group(2))))
                else:
                    raise LostAnchor("%s:%d: unknown directive %s" % (unit_path, i, d))
            opts["vacuity"] = vacuity
            chunks += _do_extract(repo, relfile, selector, opts, sources, log, extracted)
        else:
            chunks.append(Chunk(ln, {"kind": "unit", "line": i + 1}))
            i += 1
    # assemble with line map
    out, linemap, cur = [], [], 1
    for c in chunks:
        nl = c.text.count("\n")
        linemap.append({"start": cur, "end": cur + nl - 1, "origin": c.origin})
        out.append(c.text)
        cur += nl
    return "".join(out), linemap, log, extracted


def _do_extract_impl(repo, relfile, selector, opts, sources, log, extracted, lenient=False):
    path = os.path.join(repo, relfile)
    if relfile not in sources:
        try:
            sources[relfile] = Source(relfile, open(path).read())
        except OSError as e:
            raise LostAnchor("cannot read %s: %s" % (path, e))
    src = sources[relfile]
    try:
        s, e = src.locate(selector)
    except ScanError as ex:
        raise LostAnchor(str(ex))
    attr_prefix = ""
    if opts["attrs"] == "derive":
        from rustscan import _attr_start
        s0 = _attr_start(src.text, src.m, s, 0)
        derives = re.findall(r"#\[derive\([^\]]*\)\]", src.text[s0:s])
        if not derives:
            raise LostAnchor("%s %s: no #[derive(..)] attribute found" % (relfile, selector))
        keep = opts.get("derive_keep")
        if keep:
            have = [x.strip() for dd in derives for x in re.match(r"#\[derive\((.*)\)\]", dd, re.S).group(1).split(",")]
            missing = [k for k in keep if k not in have]
            if missing:
                raise LostAnchor("%s %s: derive(%s) no longer present" % (relfile, selector, ",".join(missing)))
            derives = ["#[derive(%s)]" % ", ".join(keep)]
        attr_prefix = "\n".join(derives) + "\n"
        log.append({"rule": "R4b", "where": "%s:%d" % (relfile, src.line_of(s0)), "fn": selector,
                    "before": " ".join(src.text[s0:s].split())[:200], "after": "kept only: " + " ".join(derives)})
    elif opts["attrs"]:
        from rustscan import _attr_start
        s = _attr_start(src.text, src.m, s, 0)
    text = src.text[s:e]
    name = opts["as"] or selector.split(" / ")[-1].split(":", 1)[-1]
    where = "%s:%d" % (relfile, src.line_of(s))
    sha = hashlib.sha256(text.encode()).hexdigest()
    rec = {"name": name, "file": relfile, "selector": selector, "line_start": src.line_of(s),
           "line_end": src.line_of(e), "sha256": sha, "external_body": opts["external_body"]}
    extracted.append(rec)
    original = text
    # R14: nested items hoisted out (they are extracted separately)
    for h in opts["hoist"]:
        kind, _, hname = h.partition(":")
        from rustscan import find_items, _attr_start
        mt_ = mask(text)
        b0 = mt_.find("{")
        cands = [c for c in find_items(text, mt_, kind, hname, b0 + 1, len(text) - 1)]
        if len(cands) != 1:
            if lenient:
                continue
            raise LostAnchor("%s %s: hoist %s matched %d nested items" % (where, name, h, len(cands)))
        hs, he = cands[0]
        hs = _attr_start(text, mt_, hs, b0 + 1)
        log.append({"rule": "R14", "where": where, "fn": name, "before": text[hs:he], "after": "(nested item hoisted to top level, extracted separately)"})
        text = text[:hs] + text[he:]
    group_matched = True
    for si_, (is_re, rule, count, frm, to, is_alt) in enumerate(opts["subs"]):
        # //@altsub / //@altresub: an alternative spelling of the same construct, tried only when the rule(s) before it
        # in its group matched nothing (e.g. `for x in &mut *v { f(x) }`  vs  `v.iter_mut().for_each(f)`)
        if is_alt and group_matched:
            continue
        has_alt = si_ + 1 < len(opts["subs"]) and opts["subs"][si_ + 1][5]
        found_ = len(re.findall(frm, text)) if is_re else text.count(frm)
        if found_ == 0 and has_alt:
            group_matched = False
            continue
        group_matched = True
        if is_re:
            found = len(re.findall(frm, text))
            if not _count_ok(found, count) and not lenient:
                raise LostAnchor("%s %s: rule %s /%s/ matched %d times, declared %s" % (where, name, rule, frm, found, count))
            for mt in re.finditer(frm, text):
                log.append({"rule": rule, "where": where, "fn": name, "before": mt.group(0), "after": mt.expand(to)})
            text = re.sub(frm, to, text)
        else:
            found = text.count(frm)
            if not _count_ok(found, count) and not lenient:
                raise LostAnchor("%s %s: rule %s \"%s\" matched %d times, declared %s" % (where, name, rule, frm, found, count))
            for _ in range(found):
                log.append({"rule": rule, "where": where, "fn": name, "before": frm, "after": to})
            text = text.replace(frm, to)
    if opts.get("expand_decode_bits"):
        relf_, enum_, suffix_, D_ = opts["expand_decode_bits"]
        fam = jet_family(repo, relf_, enum_, suffix_, int(D_), bool(opts.get("vacuity")))
        import jetgen
        try:
            bits_, tree_, pre_, post_ = jetgen.parse_decode_fn(text)
        except jetgen.GenError as ex:
            raise LostAnchor("%s: %s" % (name, ex))
        if tree_ != fam.tree:
            raise LostAnchor("%s: decode tree differs from the family's" % name)
        text = pre_ + fam.exec_root_body() + post_
        log.append({"rule": "R19", "where": where, "fn": name, "before": "decode_bits!(%s, {tree of %d nodes})" % (bits_, fam.stats()["tree_nodes"]),
                    "after": "expanded by the extractor following the macro's three rules (src/macros.rs); `.into()` on the error constructors dropped"})
        log.append({"rule": "R20", "where": where, "fn": name, "before": "one match tree", "after": "cut every %s levels into %d functions decode__c<path>" % (D_, fam.stats()["chunks"])})
    if not opts["noauto"]:
        n0 = len(log)
        text = auto_rules(text, log, where, exec_eval=opts.get("assert_exec", False))
        for l in log[n0:]:
            l["fn"] = name
    if opts["pub"]:
        new = make_pub(text)
        if new != text:
            log.append({"rule": "R4", "where": where, "fn": name, "before": "(private item/fields)", "after": "pub"})
        text = new
    rec["verified_text_sha256"] = hashlib.sha256(text.encode()).hexdigest()
    rec["rewritten"] = text != original
    is_fn = re.match(r"\s*(?:pub(?:\s*\([^)]*\))?\s+)?(?:const\s+|unsafe\s+)*fn\s", text) is not None
    origin = lambda part: {"kind": "extract", "name": name, "part": part, "file": relfile, "line": src.line_of(s)}
    chunks = []
    if opts["external_body"]:
        chunks.append(Chunk("#[verifier::external_body]", origin("attr")))
    if not is_fn:
        if opts["spec"] or opts["loops"] or opts["anchors"] or opts["ret"]:
            raise LostAnchor("%s: fn-only directives on a non-fn item" % name)
        for va in opts.get("vattrs", []):
            chunks.append(Chunk("#[verifier::%s]" % va, origin("attr")))
        chunks.append(Chunk(attr_prefix + text, origin("item")))
        return chunks
    sig, body = fn_parts(text)
    for va in opts.get("vattrs", []):
        # verifier-only attribute (e.g. a per-function resource limit); no effect on the executable text
        chunks.append(Chunk("#[verifier::%s]" % va, origin("attr")))
    if opts["ret"]:
        sig = name_return(sig, opts["ret"])
    chunks.append(Chunk(sig.rstrip() + "\n", origin("signature")))
    if opts["spec"]:
        chunks.append(Chunk("\n".join(opts["spec"]), origin("spec")))
    if opts["sigonly"]:
        chunks.append(Chunk(";", origin("signature")))
        return chunks
    if lenient:
        # degraded mode: an anchor / loop / rewrite of this function no longer applies (the body was
        # rewritten). Only the signature and contract are emitted, as an ASSUMED (external_body) function, so
        # that the rest of the unit can still be checked; the function itself is reported as undecided and
        # handed to its fallback harnesses.
        chunks.insert(0, Chunk("#[verifier::external_body]", origin("attr")))
        chunks.append(Chunk("{ unimplemented!() }", origin("body")))
        rec["external_body"] = True
        return chunks
    if opts.get("replace_body"):
        body_sha = hashlib.sha256(" ".join(body.split()).encode()).hexdigest()[:16]
        rec["assumed_body_sha"] = body_sha
        if opts.get("pin") and opts["pin"] != body_sha:
            raise LostAnchor("%s %s: the body this ASSUMED contract was written for has changed (pinned %s, found %s)" % (where, name, opts["pin"], body_sha))
        # R8: the body is outside the verifier's reach; only its contract is assumed
        log.append({"rule": "R8", "where": where, "fn": name, "before": " ".join(body.split())[:300], "after": "{ unimplemented!() }  (external_body: contract assumed)"})
        chunks.insert(0, Chunk("#[verifier::external_body]", origin("attr")))
        chunks.append(Chunk("{ unimplemented!() }", origin("body")))
        rec["external_body"] = True
        return chunks
    # insertion points into body
    inserts = []  # (pos, text, part)
    mb = mask(body)
    if opts["loops"] or opts["afterloops"] or opts["loopends"]:
        loops = find_loops(body, mb)
        for n, blk in opts["loopends"].items():
            if (n < 1 or n > len(loops)) and n in opts.get("optional_loops", ()):
                continue
            if n < 1 or n > len(loops):
                raise LostAnchor("%s %s: loop %d not found (%d loops)" % (where, name, n, len(loops)))
            inserts.append((match_close(mb, loops[n - 1][1]), "\n" + "\n".join(blk) + "\n", "loopend%d" % n))
        for n, blk in opts["afterloops"].items():
            if (n < 1 or n > len(loops)) and n in opts.get("optional_loops", ()):
                continue
            if n < 1 or n > len(loops):
                raise LostAnchor("%s %s: loop %d not found (%d loops)" % (where, name, n, len(loops)))
            inserts.append((match_close(mb, loops[n - 1][1]) + 1, "\n" + "\n".join(blk) + "\n", "afterloop%d" % n))
        for n, blk in opts["loops"].items():
            if (n < 1 or n > len(loops)) and n in opts.get("optional_loops", ()):
                continue
            if n < 1 or n > len(loops):
                raise LostAnchor("%s %s: loop %d not found (%d loops)" % (where, name, n, len(loops)))
            inserts.append((loops[n - 1][1], "\n" + "\n".join(blk) + "\n", "loop%d" % n))
        rec["loops_in_source"] = len(loops)
    if opts.get("bodystart"):
        inserts.append((1, "\n" + "\n".join(opts["bodystart"]) + "\n", "bodystart"))
    for kind, n, sub, blk, optional_ in opts["anchors"]:
        pos, k = -1, 0
        start = 0
        if optional_:
            cnt = sum(1 for lm in re.finditer(r"(?m)^([ \t]*)(.*)$", body) if lm.group(2).startswith(sub[1:])) if sub.startswith("^") else body.count(sub)
            if cnt < n:
                continue
        if sub.startswith("^"):
            # n-th line whose text (leading blanks stripped) starts with the given prefix
            pref = sub[1:]
            for lm in re.finditer(r"(?m)^([ \t]*)(.*)$", body):
                if lm.group(2).startswith(pref):
                    k += 1
                    if k == n:
                        pos = lm.start(2)
                        break
            if pos < 0:
                raise LostAnchor("%s %s: anchor #%d \"%s\" not found" % (where, name, n, sub))
        while not sub.startswith("^") and k < n:
            pos = body.find(sub, start)
            if pos < 0:
                raise LostAnchor("%s %s: anchor #%d \"%s\" not found" % (where, name, n, sub))
            start = pos + 1
            k += 1
        if kind == "before":
            p = body.rfind("\n", 0, pos) + 1
        else:
            p = body.find("\n", pos)
            p = len(body) if p < 0 else p + 1
        inserts.append((p, "\n".join(blk) + "\n", "%s:%s" % (kind, sub[:30])))
    if opts.get("vacuity") and not opts["external_body"]:
        # vacuity probes: the start of the body and of every loop body must be reachable with a
        # consistent context, i.e. `assert(false)` there must FAIL
        loops_v = find_loops(body, mb)
        pts = [(1, "body")] + [(l[1] + 1, "loop%d" % (k + 1)) for k, l in enumerate(loops_v)]
        for pos_v, where_v in pts:
            inserts.append((pos_v, " proof { assert(false); } /*VACUITY-PROBE %s @ %s*/\n" % (name, where_v), "probe"))
    inserts.sort(key=lambda x: x[0])
    last = 0
    for pos, txt, part in inserts:
        if pos > last:
            seg = body[last:pos]
            chunks.append(_BodyChunk(seg, origin("body")))
        chunks.append(_BodyChunk(txt, origin(part)))
        last = pos
    chunks.append(_BodyChunk(body[last:], origin("body")))
    merged, buf = [], []
    for c in chunks:
        if isinstance(c, _BodyChunk):
            buf.append(c)
        else:
            merged.append(c)
    merged.append(_assemble_body(buf))
    flat = []
    for c in merged:
        if isinstance(c, list):
            flat += c
        else:
            flat.append(c)
    return flat


class _BodyChunk:
    def __init__(self, raw, origin):
        self.raw = raw
        self.origin = origin


def _assemble_body(buf):
    """Concatenate raw pieces; emit one Chunk per line tagged with the origin of the
    piece that contributes the line's first character."""
    pieces = []
    for c in buf:
        pieces.append((c.raw, c.origin))
    text = "".join(p[0] for p in pieces)
    if not text.endswith("\n"):
        text += "\n"
    # origin per character offset → per line
    bounds, pos = [], 0
    for raw, org in pieces:
        bounds.append((pos, pos + len(raw), org))
        pos += len(raw)
    res, off = [], 0
    cur_org, cur_lines = None, []
    bi = 0
    for line in text.split("\n")[:-1]:
        while bi < len(bounds) - 1 and off >= bounds[bi][1]:
            bi += 1
        org = bounds[bi][2] if bounds else {"kind": "extract"}
        if org is not cur_org and cur_lines:
            res.append(Chunk("\n".join(cur_lines), cur_org))
            cur_lines = []
        cur_org = org
        cur_lines.append(line)
        off += len(line) + 1
    if cur_lines:
        res.append(Chunk("\n".join(cur_lines), cur_org))
    return res


# functions the driver asks to leave out of the verified text in this run (name -> reason): their extracted body was
# rejected by the verifier's front end (a construct outside Verus's subset, e.g. after a change of the function), so
# only their contract is kept, ASSUMED, and the run is undecided for them - the other functions are still decided
import threading
_TLS = threading.local()


def set_force_degrade(d):
    _TLS.force = dict(d or {})


def _force_degrade():
    return getattr(_TLS, "force", {})


def _do_extract(repo, relfile, selector, opts, sources, log, extracted):
    n_log, n_ext = len(log), len(extracted)
    name_ = opts["as"] or selector.split(" / ")[-1].split(":", 1)[-1]
    if name_ in _force_degrade() and opts["spec"] and not opts.get("sigonly") and not opts.get("assumed_from"):
        chunks = _do_extract_impl(repo, relfile, selector, opts, sources, log, extracted, lenient=True)
        extracted[-1]["degraded"] = _force_degrade()[name_]
        return chunks
    if opts.get("assumed_from"):
        chunks = _do_extract_impl(repo, relfile, selector, opts, sources, log, extracted, lenient=True)
        extracted[-1]["assumed_from_unit"] = opts["assumed_from"]
        return chunks
    try:
        return _do_extract_impl(repo, relfile, selector, opts, sources, log, extracted)
    except LostAnchor as e:
        if not opts["spec"] or opts.get("sigonly"):
            raise
        del log[n_log:]
        del extracted[n_ext:]
        try:
            chunks = _do_extract_impl(repo, relfile, selector, opts, sources, log, extracted, lenient=True)
        except LostAnchor:
            raise e
        extracted[-1]["degraded"] = str(e)
        return chunks
