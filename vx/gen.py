#!/usr/bin/env python3
"""gen.py <unit> [repo]  — weave units/<unit>/unit.vx into build/<unit>.rs (debug helper)"""
import json, os, sys
sys.path.insert(0, os.path.dirname(os.path.abspath(__file__)))
from weave import weave, LostAnchor
root = os.path.dirname(os.path.dirname(os.path.abspath(__file__)))
unit = sys.argv[1]
repo = sys.argv[2] if len(sys.argv) > 2 else "/repo"
try:
    text, linemap, log, extracted = weave(os.path.join(root, "units", unit, "unit.vx"), repo, root)
except LostAnchor as e:
    print("LOST ANCHOR:", e); sys.exit(2)
os.makedirs(os.path.join(root, "build"), exist_ok=True)
open(os.path.join(root, "build", unit + ".rs"), "w").write(text)
json.dump({"linemap": linemap, "log": log, "extracted": extracted}, open(os.path.join(root, "build", unit + ".map.json"), "w"), indent=1)
for x in extracted:
    if x.get("degraded"):
        print("DEGRADED (contract only assumed):", x["name"], "--", x["degraded"])
print("wrote build/%s.rs: %d lines, %d extracted items, %d rewrites" % (unit, text.count("\n"), len(extracted), len(log)))
