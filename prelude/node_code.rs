// prelude/node_code.rs — the wire format of one Simplicity node, as a function of its abstract content.
// Child references are DISTANCES (own position minus the child's position), as they appear on the wire.
pub enum NodeK {
    Comp(nat, nat),
    Case(nat, nat),
    Pair(nat, nat),
    Disconnect(nat, nat),
    InjL(nat),
    InjR(nat),
    Take(nat),
    Drop(nat),
    Iden,
    Unit,
    /// 512 bits of entropy
    Fail(Seq<bool>),
    /// disconnect without an attached right branch
    Disconnect1(nat),
    /// 256 bits of commitment root
    Hidden(Seq<bool>),
    Witness,
    /// the jet's code (prefix-free within its family: C14)
    Jet(Seq<bool>),
    /// n and the 2^n bits of a word of type 2^(2^n)
    Word(nat, Seq<bool>),
}

pub open spec fn ncode(k: NodeK) -> Seq<bool> {
    match k {
        NodeK::Comp(i, j) => seq![false, false, false, false, false] + enc_nat(i) + enc_nat(j),
        NodeK::Case(i, j) => seq![false, false, false, false, true] + enc_nat(i) + enc_nat(j),
        NodeK::Pair(i, j) => seq![false, false, false, true, false] + enc_nat(i) + enc_nat(j),
        NodeK::Disconnect(i, j) => seq![false, false, false, true, true] + enc_nat(i) + enc_nat(j),
        NodeK::InjL(i) => seq![false, false, true, false, false] + enc_nat(i),
        NodeK::InjR(i) => seq![false, false, true, false, true] + enc_nat(i),
        NodeK::Take(i) => seq![false, false, true, true, false] + enc_nat(i),
        NodeK::Drop(i) => seq![false, false, true, true, true] + enc_nat(i),
        NodeK::Iden => seq![false, true, false, false, false],
        NodeK::Unit => seq![false, true, false, false, true],
        NodeK::Fail(e) => seq![false, true, false, true, false] + e,
        NodeK::Disconnect1(i) => seq![false, true, false, true, true] + enc_nat(i),
        NodeK::Hidden(c) => seq![false, true, true, false] + c,
        NodeK::Witness => seq![false, true, true, true],
        NodeK::Jet(c) => seq![true, true] + c,
        NodeK::Word(n, v) => seq![true, false] + enc_nat(n + 1) + v,
    }
}
