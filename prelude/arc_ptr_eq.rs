// prelude/arc_ptr_eq.rs — needs `#![feature(allocator_api)]` at the top of the unit
/// S-13  Arc::ptr_eq: two Arcs pointing to the same allocation hold the same value (nothing is promised when it is false)
pub assume_specification<T: ?Sized, A: core::alloc::Allocator>[ std::sync::Arc::<T, A>::ptr_eq ](a: &std::sync::Arc<T, A>, b: &std::sync::Arc<T, A>) -> (r: bool)
    ensures
        r ==> *a == *b,
;
