// prelude/read_natural_post.rs — the contract of BitIter::read_natural (proved in unit bitstream)
/// the contract of `read_natural::<usize>` as a predicate, so that the round-trip theorem
/// below can be stated over it
pub open spec fn read_natural_post<I: ByteSrc>(pre: BitIter<I>, post: BitIter<I>, bound: Option<usize>, r: Result<usize, DecodeNaturalError>) -> bool {
    &&& post.wf0()
    &&& match r {
                Ok(v) => 1 <= v <= u32::MAX
                    && (match bound { Some(b) => v <= b, None => true })
                    && pre.pending() =~= enc_nat(v as nat) + post.pending()
                    && post.total_read == pre.total_read + enc_nat(v as nat).len()
                    && post.wf()
                    // canonicity: no other number's code starts this stream
                    && (forall|m: nat| m >= 1 && #[trigger] enc_nat(m).is_prefix_of(pre.pending()) ==> m == v),
                Err(DecodeNaturalError::BadIndex { got, max }) => bound == Some(max) && got > max && got <= u32::MAX
                    && pre.pending() =~= enc_nat(got as nat) + post.pending()
                    && (forall|m: nat| m >= 1 && #[trigger] enc_nat(m).is_prefix_of(pre.pending()) ==> m == got),
                // the stream ends inside a code: it starts with no number's code
                Err(DecodeNaturalError::EndOfStream(_)) => post.pending().len() == 0
                    && (forall|m: nat| m >= 1 ==> !#[trigger] enc_nat(m).is_prefix_of(pre.pending())),
                // rejected, not truncated: only numbers above u32::MAX could have a code starting this stream
                Err(DecodeNaturalError::Overflow) =>
                    (forall|m: nat| m >= 1 && #[trigger] enc_nat(m).is_prefix_of(pre.pending()) ==> m > u32::MAX),
            }
}
