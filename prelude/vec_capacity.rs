// needs #![feature(allocator_api)] in the including unit
/// S-08  Vec::capacity: an uninterpreted attribute of the vector, at least its length.
/// (Nothing is assumed about how push/pop change it.)
pub uninterp spec fn vec_capacity<T, A: core::alloc::Allocator>(v: &Vec<T, A>) -> nat;

pub assume_specification<T, A: core::alloc::Allocator>[ Vec::<T, A>::capacity ](v: &Vec<T, A>) -> (r: usize)
    ensures
        r == vec_capacity(v),
        r >= v@.len(),
;
