// prelude/bititer_view.rs — ghost view of BitIter, shared by the units that use the reader's contracts
// =================================================================================
// ghost view of the reader
// =================================================================================
impl<I: ByteSrc> BitIter<I> {
    /// bits not yet returned
    pub open spec fn pending(&self) -> Seq<bool> {
        byte_bits(self.cached_byte).skip(self.read_bits as int) + bits_of(self.iter.rest())
    }

    /// invariant that holds inside `next` (read_bits may transiently be 0)
    pub open spec fn wf0(&self) -> bool {
        self.read_bits <= 8 && self.total_read + self.pending().len() <= usize::MAX
    }

    /// invariant between public calls
    pub open spec fn wf(&self) -> bool {
        1 <= self.read_bits && self.wf0()
    }
}

pub open spec fn u2_of(a: bool, b: bool) -> u2 {
    if a { if b { u2::_3 } else { u2::_2 } } else { if b { u2::_1 } else { u2::_0 } }
}

pub open spec fn u8_of_bits(s: Seq<bool>) -> u8
    recommends
        s.len() == 8,
{
    ((if s[0] { 128u8 } else { 0u8 }) + (if s[1] { 64u8 } else { 0u8 }) + (if s[2] { 32u8 } else { 0u8 })
        + (if s[3] { 16u8 } else { 0u8 }) + (if s[4] { 8u8 } else { 0u8 }) + (if s[5] { 4u8 } else { 0u8 })
        + (if s[6] { 2u8 } else { 0u8 }) + (if s[7] { 1u8 } else { 0u8 })) as u8
}

