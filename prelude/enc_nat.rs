// prelude/enc_nat.rs — the self-delimiting code of a natural number n >= 1 (Simplicity's `encode_natural`)
/// floor(log2 n) for n >= 1
pub open spec fn blen(n: nat) -> nat
    decreases n,
{
    if n <= 1 { 0 } else { 1 + blen(n / 2) }
}

pub proof fn lemma_blen_lt(n: nat)
    requires n >= 2,
    ensures blen(n) < n, blen(n) >= 1,
    decreases n,
{
    assert(blen(n) == 1 + blen(n / 2));
    if n / 2 >= 2 { lemma_blen_lt(n / 2); } else { assert(blen(n / 2) == 0); }
}

pub open spec fn enc_nat(n: nat) -> Seq<bool>
    decreases n,
    via enc_nat_decreases
{
    if n <= 1 { seq![false] } else { seq![true] + enc_nat(blen(n)) + be(n, blen(n)) }
}

#[via_fn]
proof fn enc_nat_decreases(n: nat) {
    if n > 1 { lemma_blen_lt(n); }
}

