// prelude/bitwriter_view.rs — abstract view of a BitWriter: every bit written so far, and its representation invariant
impl<W: ByteSink> BitWriter<W> {
    pub open spec fn cache_bits(&self) -> Seq<bool> {
        byte_bits(self.cache).take(self.cache_len as int)
    }

    /// every bit written so far (flushed bytes, then the partial byte)
    pub open spec fn out(&self) -> Seq<bool> {
        bits_of(self.w.written()) + self.cache_bits()
    }

    pub open spec fn wf(&self) -> bool {
        self.cache_len <= 8 && (forall|i: int| self.cache_len <= i < 8 ==> !bit_of(self.cache, i))
    }
}

