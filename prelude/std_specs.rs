// ---------------------------------------------------------------------------------
// prelude/std_specs.rs — contracts ASSUMED of `std` functions that vstd does not specify.
// Each has an id (S-xx); kani/harness/std_specs.rs re-proves the same formula against
// the real std function on the full input domain.
// ---------------------------------------------------------------------------------

/// S-01  u8::checked_shl: `Some(x << rhs)` (bits shifted out are dropped) when rhs < 8, else `None`.
pub assume_specification[ u8::checked_shl ](x: u8, rhs: u32) -> (r: Option<u8>)
    ensures
        r == (if rhs < 8 { Some(x << (rhs as u8)) } else { None::<u8> }),
;

/// S-02  usize::leading_zeros (64-bit usize): for n > 0 the result r satisfies 2^(63-r) <= n < 2^(64-r); 64 for n == 0.
pub uninterp spec fn lz_usize(n: usize) -> u32;

pub assume_specification[ usize::leading_zeros ](n: usize) -> (r: u32)
    ensures
        r == lz_usize(n),
;

#[verifier::external_body]
pub proof fn axiom_lz_usize(n: usize)
    ensures
        lz_usize(n) <= 64,
        n == 0 <==> lz_usize(n) == 64,
        n > 0 ==> vstd::arithmetic::power2::pow2((63 - lz_usize(n)) as nat) <= n < vstd::arithmetic::power2::pow2((64 - lz_usize(n)) as nat),
{
}
