// ---------------------------------------------------------------------------------
// prelude/std_specs.rs — contracts ASSUMED of `std` functions that vstd does not specify.
// Each has an id (S-xx); kani/harness/std_specs.rs re-proves the same formula against
// the real std function on the full input domain.
// ---------------------------------------------------------------------------------

/// S-01  u8::checked_shl: `Some(x << rhs)` (bits shifted out are dropped) when rhs < 8, else `None`.
pub assume_specification[ u8::checked_shl ](x: u8, rhs: u32) -> (r: Option<u8>)
    ensures
        r == (if rhs < 8 { Some(x << (rhs as u8)) } else { None::<u8> }),
;

/// S-02  usize::leading_zeros (64-bit usize): for n > 0 the result r satisfies 2^(63-r) <= n < 2^(64-r); 64 for n == 0.
pub uninterp spec fn lz_usize(n: usize) -> u32;

pub assume_specification[ usize::leading_zeros ](n: usize) -> (r: u32)
    ensures
        r == lz_usize(n),
;

#[verifier::external_body]
pub proof fn axiom_lz_usize(n: usize)
    ensures
        lz_usize(n) <= 64,
        n == 0 <==> lz_usize(n) == 64,
        n > 0 ==> vstd::arithmetic::power2::pow2((63 - lz_usize(n)) as nat) <= n < vstd::arithmetic::power2::pow2((64 - lz_usize(n)) as nat),
{
}

/// S-03  Result::unwrap_or
pub assume_specification<T, E>[ Result::<T, E>::unwrap_or ](res: Result<T, E>, default: T) -> (r: T)
    where E: std::marker::Destruct, T: std::marker::Destruct,
    ensures
        r == (match res { Ok(v) => v, Err(_) => default }),
;

/// S-04  <u32 as From<bool>>::from: false -> 0, true -> 1
#[verifier::external_body]
pub proof fn axiom_u32_from_bool()
    ensures
        <u32 as vstd::std_specs::convert::FromSpec<bool>>::obeys_from_spec(),
        forall|b: bool| #[trigger] <u32 as vstd::std_specs::convert::FromSpec<bool>>::from_spec(b) == (if b { 1u32 } else { 0u32 }),
{
}

/// S-05  <i32 as TryFrom<u32>>::try_from: Ok(n) exactly when n <= i32::MAX
#[verifier::external_body]
pub proof fn axiom_i32_try_from_u32()
    ensures
        <i32 as vstd::std_specs::convert::TryFromSpec<u32>>::obeys_try_from_spec(),
        forall|n: u32| (#[trigger] <i32 as vstd::std_specs::convert::TryFromSpec<u32>>::try_from_spec(n)).is_ok() <==> n <= 0x7fff_ffff,
        forall|n: u32| n <= 0x7fff_ffff ==> (#[trigger] <i32 as vstd::std_specs::convert::TryFromSpec<u32>>::try_from_spec(n)).unwrap() == n as i32,
{
}

/// S-06  <usize as TryFrom<usize>>::try_from (blanket reflexive impl): always Ok(n)
#[verifier::external_body]
pub proof fn axiom_usize_try_from_usize()
    ensures
        <usize as vstd::std_specs::convert::TryFromSpec<usize>>::obeys_try_from_spec(),
        forall|n: usize| (#[trigger] <usize as vstd::std_specs::convert::TryFromSpec<usize>>::try_from_spec(n)).is_ok(),
        forall|n: usize| (#[trigger] <usize as vstd::std_specs::convert::TryFromSpec<usize>>::try_from_spec(n)).unwrap() == n,
{
}

/// S-07  usize::div_ceil
pub assume_specification[ usize::div_ceil ](a: usize, b: usize) -> (r: usize)
    requires
        b > 0,
    ensures
        r == (a + b - 1) / (b as int),
;


/// S-09  core::cmp::max: the second argument unless the first is strictly greater
#[verifier::allow(undeclared_external_trait)]
pub assume_specification<T>[ std::cmp::max ](a: T, b: T) -> (r: T)
    where T: std::cmp::Ord + std::marker::Destruct,
    ensures
        vstd::std_specs::cmp::OrdSpec::cmp_spec(&a, &b) == core::cmp::Ordering::Greater ==> r == a,
        vstd::std_specs::cmp::OrdSpec::cmp_spec(&a, &b) != core::cmp::Ordering::Greater ==> r == b,
;

/// S-10  core::cmp::min: the first argument unless the second is strictly smaller
#[verifier::allow(undeclared_external_trait)]
pub assume_specification<T>[ std::cmp::min ](a: T, b: T) -> (r: T)
    where T: std::cmp::Ord + std::marker::Destruct,
    ensures
        vstd::std_specs::cmp::OrdSpec::cmp_spec(&a, &b) == core::cmp::Ordering::Greater ==> r == b,
        vstd::std_specs::cmp::OrdSpec::cmp_spec(&a, &b) != core::cmp::Ordering::Greater ==> r == a,
;

/// S-11  <u8 as From<bool>>::from: false -> 0, true -> 1
#[verifier::external_body]
pub proof fn axiom_u8_from_bool()
    ensures
        <u8 as vstd::std_specs::convert::FromSpec<bool>>::obeys_from_spec(),
        forall|b: bool| #[trigger] <u8 as vstd::std_specs::convert::FromSpec<bool>>::from_spec(b) == (if b { 1u8 } else { 0u8 }),
{
}

/// S-12  Option<&T>::copied
pub assume_specification<'a, T>[ std::option::Option::<&T>::copied ](o: std::option::Option<&'a T>) -> (r: std::option::Option<T>)
    where T: std::marker::Copy,
    ensures
        r == (match o { Some(x) => Some(*x), None => None::<T> }),
;
