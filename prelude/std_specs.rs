// ---------------------------------------------------------------------------------
// prelude/std_specs.rs — contracts ASSUMED of `std` functions that vstd does not specify.
// Each has an id (S-xx); kani/harness/std_specs.rs re-proves the same formula against
// the real std function on the full input domain.
// ---------------------------------------------------------------------------------

/// S-01  u8::checked_shl: `Some(x << rhs)` (bits shifted out are dropped) when rhs < 8, else `None`.
pub assume_specification[ u8::checked_shl ](x: u8, rhs: u32) -> (r: Option<u8>)
    ensures
        r == (if rhs < 8 { Some(x << (rhs as u8)) } else { None::<u8> }),
;
