// ---------------------------------------------------------------------------------
// prelude/bytes.rs — R5: contracts assumed of caller-supplied byte iterators / writers,
// and the bit-level vocabulary shared by all units (MSB-first bit strings).
// ---------------------------------------------------------------------------------

/// Contract assumed of the `I: Iterator<Item = u8>` a `BitIter` wraps: it pops the head of
/// a ghost sequence and is fused (once empty it stays empty and keeps returning `None`).
/// `Vec<u8>::into_iter()`, `slice.iter().copied()` and `array::IntoIter` satisfy it.
pub trait ByteSrc {
    spec fn rest(&self) -> Seq<u8>;

    fn next(&mut self) -> (r: Option<u8>)
        ensures
            match r {
                Some(b) => old(self).rest().len() > 0 && b == old(self).rest()[0]
                    && final(self).rest() == old(self).rest().skip(1),
                None => old(self).rest().len() == 0 && final(self).rest() == old(self).rest(),
            };
}

pub struct IoErr;

/// Contract assumed of the `W: io::Write` a `BitWriter` wraps: `write_all` either appends
/// the whole buffer to a ghost byte sequence or fails (then nothing about the sink's content is
/// promised beyond "the old content is still a prefix"); `flush` does not change the content.
pub trait ByteSink {
    spec fn written(&self) -> Seq<u8>;

    fn write_all(&mut self, buf: &[u8]) -> (r: Result<(), IoErr>)
        ensures
            match r {
                Ok(_) => final(self).written() == old(self).written() + buf@,
                Err(_) => old(self).written().is_prefix_of(final(self).written()),
            };

    fn flush(&mut self) -> (r: Result<(), IoErr>)
        ensures
            final(self).written() == old(self).written();
}

/// bit `i` (0 = most significant) of a byte
pub open spec fn bit_of(b: u8, i: int) -> bool {
    b & (1u8 << ((7 - i) as u8)) != 0
}

pub open spec fn byte_bits(b: u8) -> Seq<bool> {
    Seq::new(8, |i: int| bit_of(b, i))
}

/// MSB-first bit string of a byte string
pub open spec fn bits_of(s: Seq<u8>) -> Seq<bool> {
    Seq::new(8 * s.len(), |k: int| bit_of(s[k / 8], k % 8))
}

pub proof fn lemma_bits_of_cons(s: Seq<u8>)
    requires
        s.len() > 0,
    ensures
        bits_of(s) =~= byte_bits(s[0]) + bits_of(s.skip(1)),
{
    let a = bits_of(s);
    let b = byte_bits(s[0]) + bits_of(s.skip(1));
    assert(a.len() == b.len());
    assert forall|k: int| 0 <= k < a.len() implies a[k] == b[k] by {
        if k >= 8 {
            assert((k - 8) / 8 == k / 8 - 1);
            assert((k - 8) % 8 == k % 8);
            assert(s.skip(1)[(k - 8) / 8] == s[k / 8]);
        }
    }
}

pub proof fn lemma_bits_of_push(s: Seq<u8>, b: u8)
    ensures
        bits_of(s.push(b)) =~= bits_of(s) + byte_bits(b),
{
    let a = bits_of(s.push(b));
    let c = bits_of(s) + byte_bits(b);
    assert(a.len() == c.len());
    assert forall|k: int| 0 <= k < a.len() implies a[k] == c[k] by {
        if k >= 8 * s.len() {
            assert(k / 8 == s.len());
            assert(k % 8 == k - 8 * s.len());
        } else {
            assert(k / 8 < s.len());
        }
    }
}

pub proof fn lemma_bits_of_empty()
    ensures
        bits_of(Seq::<u8>::empty()) =~= Seq::<bool>::empty(),
{
}

pub proof fn lemma_set_bit(c: u8, k: u8, i: u8)
    requires
        k < 8,
        i < 8,
    ensures
        bit_of(c | (1u8 << ((7 - k) as u8)), i as int) == (i == k || bit_of(c, i as int)),
{
    assert(((c | (1u8 << ((7 - k) as u8))) & (1u8 << ((7 - i) as u8)) != 0) == (i == k || (c & (1u8 << ((7 - i) as u8)) != 0))) by (bit_vector)
        requires k < 8, i < 8;
}

pub proof fn lemma_zero_byte(i: int)
    requires 0 <= i < 8,
    ensures !bit_of(0u8, i),
{
    let s = (7 - i) as u8;
    assert(0u8 & (1u8 << s) == 0) by (bit_vector);
}


pub proof fn lemma_clear_bit(c: u8, k: u8, i: u8)
    requires
        k < 8,
        i < 8,
    ensures
        bit_of(c & !(1u8 << ((7 - k) as u8)), i as int) == (i != k && bit_of(c, i as int)),
{
    assert(((c & !(1u8 << ((7 - k) as u8))) & (1u8 << ((7 - i) as u8)) != 0) == (i != k && (c & (1u8 << ((7 - i) as u8)) != 0))) by (bit_vector)
        requires k < 8, i < 8;
}

/// bit i of a byte string (MSB-first), as an index into bits_of
pub open spec fn gbit(data: Seq<u8>, i: int) -> bool {
    bit_of(data[i / 8], i % 8)
}
