// prelude/be.rs — be(n,k): the k low bits of n, most significant first
pub open spec fn be(n: nat, k: nat) -> Seq<bool>
    decreases k,
{
    if k == 0 { Seq::<bool>::empty() } else { be(n / 2, (k - 1) as nat).push(n % 2 == 1) }
}

pub proof fn lemma_be_len(n: nat, k: nat)
    ensures be(n, k).len() == k,
    decreases k,
{
    if k > 0 { lemma_be_len(n / 2, (k - 1) as nat); }
}
