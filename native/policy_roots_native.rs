// Native bounded stand-in for C16's first two sentences (attached as `#[cfg(test)] mod` to a verbatim copy of the working
// tree). For every policy of an enumerated family: the root computed directly (Policy::cmr) equals the root of the
// compiled program (Policy::commit) and of the satisfied and pruned program (Policy::satisfy); with a satisfier whose
// answers are true of the environment, satisfaction succeeds exactly when those answers make the policy true (and = both,
// or = either, threshold = at least k), and the returned program runs successfully in that environment.
// BOUNDED: leaves trivial / unsatisfiable / after / older / sha256 / key, each in a satisfied and an unsatisfied variant;
// and / or / threshold nodes to depth 2 over a sample of sub-policies. Never counted as proved.
use crate::jet::elements::ElementsEnv;
use crate::policy::{Policy, Preimage32, Satisfier};
use crate::{types, BitMachine, FailEntropy};
use elements::bitcoin::hashes::{sha256, Hash};
use elements::bitcoin::key::{Keypair, XOnlyPublicKey};
use elements::locktime::Height;
use elements::secp256k1_zkp;
use std::collections::HashMap;
use std::sync::Arc;

type P = Policy<XOnlyPublicKey>;

struct Sat<'a, 'brand> {
    context: types::Context<'brand>,
    preimages: HashMap<sha256::Hash, Preimage32>,
    signatures: HashMap<XOnlyPublicKey, elements::SchnorrSig>,
    tx: &'a elements::Transaction,
}

impl<'brand> Satisfier<'brand, XOnlyPublicKey> for Sat<'_, 'brand> {
    fn inference_context(&self) -> &types::Context<'brand> {
        &self.context
    }
    fn lookup_signature(&self, pk: &XOnlyPublicKey) -> Option<elements::SchnorrSig> {
        self.signatures.get(pk).copied()
    }
    fn lookup_sha256(&self, hash: &sha256::Hash) -> Option<Preimage32> {
        self.preimages.get(hash).copied()
    }
    fn check_older(&self, sequence: elements::Sequence) -> bool {
        Satisfier::<XOnlyPublicKey>::check_older(&(&self.context, self.tx.input[0].sequence), sequence)
    }
    fn check_after(&self, locktime: elements::LockTime) -> bool {
        Satisfier::<XOnlyPublicKey>::check_after(&(&self.context, self.tx.lock_time), locktime)
    }
}

/// the truth of a policy under the answers the satisfier gives
fn truth(p: &P, leaf: &dyn Fn(&P) -> bool) -> bool {
    match p {
        Policy::And { left, right } => truth(left, leaf) && truth(right, leaf),
        Policy::Or { left, right } => truth(left, leaf) || truth(right, leaf),
        Policy::Threshold(k, subs) => subs.iter().filter(|s| truth(s, leaf)).count() >= *k,
        other => leaf(other),
    }
}

fn and(a: &P, b: &P) -> P {
    Policy::And { left: Arc::new(a.clone()), right: Arc::new(b.clone()) }
}
fn or(a: &P, b: &P) -> P {
    Policy::Or { left: Arc::new(a.clone()), right: Arc::new(b.clone()) }
}

#[test]
fn c16_policy_roots_replay() {
    let env = ElementsEnv::dummy_with(
        elements::LockTime::Blocks(Height::from_consensus(100).unwrap()),
        elements::Sequence::from_consensus(10),
    );
    let secp = secp256k1_zkp::Secp256k1::new();
    let sighash = env.c_tx_env().sighash_all();
    let msg = secp256k1_zkp::Message::from_digest(sighash.to_byte_array());
    let kp_known = Keypair::from_seckey_slice(&secp, &[7u8; 32]).unwrap();
    let kp_unknown = Keypair::from_seckey_slice(&secp, &[9u8; 32]).unwrap();
    let key_known = kp_known.x_only_public_key().0;
    let key_unknown = kp_unknown.x_only_public_key().0;
    let mut signatures = HashMap::new();
    signatures.insert(
        key_known,
        elements::SchnorrSig { sig: kp_known.sign_schnorr(msg), hash_ty: elements::SchnorrSighashType::All },
    );
    let pre_known = [3u8; 32];
    let img_known = sha256::Hash::hash(&pre_known);
    let img_unknown = sha256::Hash::hash(&[4u8; 32]);
    let mut preimages = HashMap::new();
    preimages.insert(img_known, pre_known);

    // leaves with the truth value the environment gives them
    let mut entropy = [0u8; 64];
    for (i, b) in entropy.iter_mut().enumerate() {
        *b = i as u8;
    }
    let leaves: Vec<(P, bool)> = vec![
        (Policy::Trivial, true),
        (Policy::Unsatisfiable(FailEntropy::from_byte_array(entropy)), false),
        (Policy::After(100), true),
        (Policy::After(101), false),
        (Policy::Older(10), true),
        (Policy::Older(11), false),
        (Policy::Sha256(img_known), true),
        (Policy::Sha256(img_unknown), false),
        (Policy::Key(key_known), true),
        (Policy::Key(key_unknown), false),
    ];
    let leaf_truth = |p: &P| leaves.iter().find(|(q, _)| q == p).map(|(_, t)| *t).expect("a leaf of the family");

    let ls: Vec<P> = leaves.iter().map(|(p, _)| p.clone()).collect();
    let mut family: Vec<P> = ls.clone();
    let mut depth1: Vec<P> = vec![];
    for a in &ls {
        for b in &ls {
            depth1.push(and(a, b));
            depth1.push(or(a, b));
            depth1.push(Policy::Threshold(1, vec![a.clone(), b.clone()]));
            depth1.push(Policy::Threshold(2, vec![a.clone(), b.clone()]));
        }
        depth1.push(Policy::Threshold(1, vec![a.clone()]));
    }
    for (i, a) in ls.iter().enumerate() {
        for (j, b) in ls.iter().enumerate() {
            for (l, c) in ls.iter().enumerate() {
                if (i + 2 * j + 3 * l) % 5 == 0 {
                    for k in 0..=3 {
                        depth1.push(Policy::Threshold(k, vec![a.clone(), b.clone(), c.clone()]));
                    }
                }
            }
        }
    }
    family.extend(depth1.iter().cloned());
    // depth 2: a sample of depth-1 policies combined with leaves, on either side
    let deep = std::env::var("VERIF_NATIVE_DEEP").is_ok(); // thorough tier: every depth-1 policy with every leaf
    for (i, d) in depth1.iter().enumerate() {
        if !deep && i % 7 != 0 {
            continue;
        }
        for (j, l) in ls.iter().enumerate() {
            if !deep && (i + j) % 3 != 0 {
                continue;
            }
            family.push(and(d, l));
            family.push(and(l, d));
            family.push(or(d, l));
            family.push(or(l, d));
            family.push(Policy::Threshold(2, vec![l.clone(), d.clone(), ls[(j + 1) % ls.len()].clone()]));
        }
    }

    let mut fails: Vec<String> = vec![];
    let mut n_sat = 0usize;
    for p in &family {
        // one policy: (failures, satisfied?)
        let check = || -> (Vec<String>, bool) {
            let mut fails: Vec<String> = vec![];
            let direct = p.cmr();
            let compiled = p.commit().cmr();
            if direct != compiled {
                fails.push(format!("{:?}: cmr() = {} but commit().cmr() = {}", p, direct, compiled));
            }
            let expect = truth(p, &leaf_truth);
            let res = types::Context::with_context(|ctx| {
                let sat = Sat { context: ctx, preimages: preimages.clone(), signatures: signatures.clone(), tx: env.tx() };
                p.satisfy(&sat, &env)
            });
            match res {
                Ok(program) => {
                    if !expect {
                        fails.push(format!("{:?}: satisfied although the satisfier's answers make it false", p));
                    }
                    if program.cmr() != direct {
                        fails.push(format!("{:?}: cmr() = {} but the satisfied program has root {}", p, direct, program.cmr()));
                    }
                    match BitMachine::for_program(&program) {
                        Ok(mut mac) => {
                            if let Err(e) = mac.exec(&program, &env) {
                                fails.push(format!("{:?}: the satisfied program fails to run: {}", p, e));
                            }
                        }
                        Err(e) => fails.push(format!("{:?}: no machine for the satisfied program: {}", p, e)),
                    }
                    (fails, true)
                }
                Err(e) => {
                    if expect {
                        fails.push(format!("{:?}: not satisfied ({:?}) although the satisfier's answers make it true", p, e));
                    }
                    (fails, false)
                }
            }
        };
        match std::panic::catch_unwind(std::panic::AssertUnwindSafe(check)) {
            Ok((f, sat)) => {
                fails.extend(f);
                n_sat += usize::from(sat);
            }
            Err(e) => {
                let msg = e.downcast_ref::<String>().cloned().or_else(|| e.downcast_ref::<&str>().map(|s| s.to_string())).unwrap_or_default();
                fails.push(format!("{:?}: the library PANICS while compiling / satisfying it: {}", p, msg));
            }
        }
        if fails.len() >= 6 {
            break;
        }
    }
    println!("policies: {}, satisfied: {}", family.len(), n_sat);
    for f in &fails {
        println!("CEX: {}", f);
    }
    assert!(!fails.is_empty() || (family.len() > 900 && n_sat > 300), "the enumeration shrank");
    assert!(fails.is_empty(), "{} failing policies", fails.len());
}
