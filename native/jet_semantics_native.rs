// Native bounded stand-in for C05's jet clause ("arithmetic, logic and comparison jets computing their specified functions")
// (attached as `#[cfg(test)] mod` to a verbatim copy of the working tree). For 22 families of Core and Elements jets at 8, 16, 32 and
// 64 bits it runs the jet through the real Bit Machine (program = the jet node, dispatched through the generated jet tables
// and the FFI wrappers) on edge and pseudo-random operands and compares the output with a reference computed here in
// plain integer arithmetic. BOUNDED (2 x 88 jets, ~40 operand pairs each); never counted as proved. What it is for: a jet
// wired to the wrong C function or with the wrong source / target type in src/jet/init/{core,elements}.rs.
use crate::jet::elements::ElementsEnv;
use crate::jet::{Core, CoreEnv, Elements, Jet, JetEnvironment};
use crate::node::{ConstructNode, CoreConstructible};
use crate::{types, BitMachine, Value};
use std::sync::Arc;

fn word(bits: u32, x: u128) -> Value {
    match bits {
        8 => Value::u8(x as u8),
        16 => Value::u16(x as u16),
        32 => Value::u32(x as u32),
        64 => Value::u64(x as u64),
        128 => Value::u128(x),
        _ => unreachable!(),
    }
}

fn bit(b: bool) -> Value {
    Value::u1(b as u8)
}

#[derive(Clone, Copy, Debug)]
enum Op {
    Add,
    Subtract,
    Multiply,
    Lt,
    Le,
    Eq,
    Max,
    Min,
    And,
    Or,
    Xor,
    Complement,
    Increment,
    Decrement,
    IsZero,
    IsOne,
    All,
    Some_,
    Low,
    High,
    FullAdd,
    FullSubtract,
}

/// (number of word operands, takes a leading carry/borrow bit)
fn arity(op: Op) -> (usize, bool) {
    match op {
        Op::Add | Op::Subtract | Op::Multiply | Op::Lt | Op::Le | Op::Eq | Op::Max | Op::Min | Op::And | Op::Or | Op::Xor => (2, false),
        Op::Complement | Op::Increment | Op::Decrement | Op::IsZero | Op::IsOne | Op::All | Op::Some_ => (1, false),
        Op::Low | Op::High => (0, false),
        Op::FullAdd | Op::FullSubtract => (2, true),
    }
}

/// the specified function, on operands of `bits` bits
fn reference(op: Op, bits: u32, c: bool, a: u128, b: u128) -> Value {
    let mask: u128 = (1u128 << bits) - 1;
    match op {
        Op::Add => Value::product(bit(a + b > mask), word(bits, (a + b) & mask)),
        Op::FullAdd => Value::product(bit(a + b + c as u128 > mask), word(bits, (a + b + c as u128) & mask)),
        Op::Subtract => Value::product(bit(a < b), word(bits, a.wrapping_sub(b) & mask)),
        Op::FullSubtract => Value::product(bit(a < b + c as u128), word(bits, a.wrapping_sub(b).wrapping_sub(c as u128) & mask)),
        Op::Multiply => word(2 * bits, a * b),
        Op::Lt => bit(a < b),
        Op::Le => bit(a <= b),
        Op::Eq => bit(a == b),
        Op::Max => word(bits, a.max(b)),
        Op::Min => word(bits, a.min(b)),
        Op::And => word(bits, a & b),
        Op::Or => word(bits, a | b),
        Op::Xor => word(bits, a ^ b),
        Op::Complement => word(bits, !a & mask),
        Op::Increment => Value::product(bit(a == mask), word(bits, (a + 1) & mask)),
        Op::Decrement => Value::product(bit(a == 0), word(bits, a.wrapping_sub(1) & mask)),
        Op::IsZero => bit(a == 0),
        Op::IsOne => bit(a == 1),
        Op::All => bit(a == mask),
        Op::Some_ => bit(a != 0),
        Op::Low => word(bits, 0),
        Op::High => word(bits, mask),
    }
}

macro_rules! jets {
    ($fam:ident; $($op:ident: $j8:ident $j16:ident $j32:ident $j64:ident;)*) => {
        vec![$((Op::$op, [$fam::$j8, $fam::$j16, $fam::$j32, $fam::$j64]),)*]
    };
}

macro_rules! families {
    ($fam:ident) => {
        jets! { $fam;
        Add: Add8 Add16 Add32 Add64;
        Subtract: Subtract8 Subtract16 Subtract32 Subtract64;
        Multiply: Multiply8 Multiply16 Multiply32 Multiply64;
        Lt: Lt8 Lt16 Lt32 Lt64;
        Le: Le8 Le16 Le32 Le64;
        Eq: Eq8 Eq16 Eq32 Eq64;
        Max: Max8 Max16 Max32 Max64;
        Min: Min8 Min16 Min32 Min64;
        And: And8 And16 And32 And64;
        Or: Or8 Or16 Or32 Or64;
        Xor: Xor8 Xor16 Xor32 Xor64;
        Complement: Complement8 Complement16 Complement32 Complement64;
        Increment: Increment8 Increment16 Increment32 Increment64;
        Decrement: Decrement8 Decrement16 Decrement32 Decrement64;
        IsZero: IsZero8 IsZero16 IsZero32 IsZero64;
        IsOne: IsOne8 IsOne16 IsOne32 IsOne64;
        All: All8 All16 All32 All64;
        Some_: Some8 Some16 Some32 Some64;
        Low: Low8 Low16 Low32 Low64;
        High: High8 High16 High32 High64;
        FullAdd: FullAdd8 FullAdd16 FullAdd32 FullAdd64;
        FullSubtract: FullSubtract8 FullSubtract16 FullSubtract32 FullSubtract64;
        }
    };
}

#[test]
fn c05_jet_semantics_replay() {
    let mut fails: Vec<String> = vec![];
    let mut tested = 0usize;
    // the same 88 jets exist in the Core and in the Elements family, each with its own generated tables
    run_family::<Core, CoreEnv>("core", &families!(Core), &CoreEnv::new(), &mut fails, &mut tested);
    if fails.is_empty() {
        run_family::<Elements, _>("elements", &families!(Elements), &ElementsEnv::dummy(), &mut fails, &mut tested);
    }
    println!("TESTED: {} jet executions", tested);
    for f in &fails {
        println!("CEX: {}", f);
    }
    assert!(!fails.is_empty() || tested > 7000, "the enumeration shrank");
    assert!(fails.is_empty(), "{} failing jet execution(s)", fails.len());
}

fn run_family<J: Jet, E: JetEnvironment>(family: &str, table: &[(Op, [J; 4])], env: &E, fails: &mut Vec<String>, tested: &mut usize) {
    'outer: for (op, js) in table {
        for (k, jet) in js.iter().enumerate() {
            let bits = 8u32 << k;
            let mask: u128 = (1u128 << bits) - 1;
            // operands: the edges and a fixed pseudo-random sample
            let mut xs: Vec<u128> = vec![0, 1, 2, mask, mask - 1, mask >> 1, (mask >> 1) + 1, 0x5555_5555_5555_5555 & mask, 0xaaaa_aaaa_aaaa_aaaa & mask];
            let mut state: u64 = 0x9e37_79b9_7f4a_7c15 ^ (bits as u64);
            for _ in 0..4 {
                state = state.wrapping_mul(6364136223846793005).wrapping_add(1442695040888963407);
                xs.push(((state as u128) << 23 ^ (state as u128 >> 17)) & mask);
            }
            let (n_ops, carry) = arity(*op);
            let pairs: Vec<(u128, u128)> = match n_ops {
                0 => vec![(0, 0)],
                1 => xs.iter().map(|&a| (a, 0)).collect(),
                _ => {
                    let mut v = vec![];
                    for (i, &a) in xs.iter().enumerate() {
                        for (j, &b) in xs.iter().enumerate() {
                            if i == j || (i + 2 * j) % 4 == 0 || a == b {
                                v.push((a, b));
                            }
                        }
                    }
                    v
                }
            };
            let program = types::Context::with_context(|ctx| {
                let node: Arc<ConstructNode> = Arc::<ConstructNode>::jet(&ctx, jet);
                node.finalize_unpruned()
            });
            let program = match program {
                Ok(p) => p,
                Err(e) => {
                    fails.push(format!("{} jet {}: the jet alone does not finalize: {}", family, jet, e));
                    continue;
                }
            };
            for &(a, b) in &pairs {
                for c in if carry { vec![false, true] } else { vec![false] } {
                    let input = match (n_ops, carry) {
                        (0, _) => Value::unit(),
                        (1, _) => word(bits, a),
                        (_, false) => Value::product(word(bits, a), word(bits, b)),
                        (_, true) => Value::product(bit(c), Value::product(word(bits, a), word(bits, b))),
                    };
                    let want = reference(*op, bits, c, a, b);
                    *tested += 1;
                    let (p2, i2) = (Arc::clone(&program), input.clone());
                    let got = std::panic::catch_unwind(std::panic::AssertUnwindSafe(move || -> Result<Value, String> {
                        let mut mac = BitMachine::for_program(&p2).map_err(|e| format!("for_program: {}", e))?;
                        mac.input(&i2).map_err(|e| format!("input: {}", e))?;
                        mac.exec(&p2, env).map_err(|e| format!("exec: {}", e))
                    }));
                    match got {
                        Err(_) => fails.push(format!("{} jet {} on {}: the Bit Machine PANICS", family, jet, input)),
                        Ok(Err(e)) => fails.push(format!("{} jet {} on {}: {} (the specified function gives {})", family, jet, input, e, want)),
                        Ok(Ok(v)) if v != want => fails.push(format!("{} jet {} on {}: the Bit Machine returns {}, the specified function gives {}", family, jet, input, v, want)),
                        _ => {}
                    }
                    if fails.len() >= 6 {
                        break 'outer;
                    }
                }
            }
        }
    }
}
