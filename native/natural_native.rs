// Native bounded stand-in / replay oracle for the natural-number clauses of C13 (attached as `#[cfg(test)] mod` to a
// verbatim copy of the working tree). It runs when unit `bitstream` could not be given to the verifier completely (or, in
// the thorough tier, as an extra bounded check). Every 24-bit string is offered to read_natural: whatever decodes must
// re-encode to exactly the consumed bits; every number in a set of ranges must round-trip; bounds must be respected.
use crate::encode::encode_natural;
use crate::{BitIter, BitWriter};

fn enc(n: usize) -> (Vec<u8>, usize) {
    let mut v = Vec::new();
    let k = {
        let mut w = BitWriter::new(&mut v);
        let k = encode_natural(n, &mut w).unwrap();
        w.flush_all().unwrap();
        k
    };
    (v, k)
}

fn bits(b: &[u8], n: usize) -> String {
    (0..n).map(|i| if b[i / 8] & (1 << (7 - i % 8)) != 0 { '1' } else { '0' }).collect()
}

#[test]
fn c13_natural_replay() {
    let mut fails: Vec<String> = Vec::new();
    // 1. encode then decode, consuming exactly the written bits, for small numbers and around every power of two
    let mut ns: Vec<usize> = (1..=70_000).collect();
    for p in 1..=31 {
        for d in [-2i64, -1, 0, 1, 2] {
            let x = (1i64 << p) + d;
            if x >= 1 && x < (1i64 << 31) {
                ns.push(x as usize);
            }
        }
    }
    for n in ns {
        let (bytes, k) = enc(n);
        let mut tail = bytes.clone();
        tail.extend_from_slice(&[0xff, 0xff]);
        let mut it = BitIter::from(tail.iter().copied());
        match it.read_natural::<usize>(None) {
            Ok(m) if m == n && it.n_total_read() == k => {}
            other => fails.push(format!("{} encodes as {} ({} bits); decoding gives {:?} after {} bits", n, bits(&bytes, k), k, other, it.n_total_read())),
        }
        let mut it = BitIter::from(tail.iter().copied());
        if n > 1 && it.read_natural::<usize>(Some(n - 1)).is_ok() {
            fails.push(format!("{} is accepted under the bound {}", n, n - 1));
        }
        if fails.len() >= 8 {
            break;
        }
    }
    // 2. decode then encode: every 24-bit string (followed by ones), as u32 and as u16
    for x in 0u32..(1 << 24) {
        let b = [(x >> 16) as u8, (x >> 8) as u8, x as u8, 0xff, 0xff, 0xff, 0xff, 0xff];
        let mut it = BitIter::from(b.iter().copied());
        if let Ok(n) = it.read_natural::<u32>(None) {
            let used = it.n_total_read();
            let (bytes, k) = enc(n as usize);
            if used > 24 {
                continue; // the code ran into the filler: not one of the enumerated strings
            }
            if k != used || bits(&bytes, k) != bits(&b, used) {
                fails.push(format!("bits {} decode to {} after {} bits, but {} encodes as {} ({} bits)", bits(&b, used), n, used, n, bits(&bytes, k), k));
                if fails.len() >= 8 {
                    break;
                }
            }
        }
    }
    // 3. other result types, signed ones with negative bounds included: the bound is applied in the result type N
    //    ("larger or out-of-bound numbers are rejected ... for all bounds, all integer result types")
    macro_rules! signed_bounds {
        ($t:ty) => {
            for n in (1usize..=300).chain([255, 256, 257, 32767, 32768, 65535, 65536, 1 << 20]) {
                let (bytes, _k) = enc(n);
                let mut tail = bytes.clone();
                tail.extend_from_slice(&[0xff, 0xff]);
                for bound in [<$t>::MIN, -300, -1, 0, 1, 2, 127, 128, 255, 256, 300, 32767, <$t>::MAX] {
                    let unbounded = BitIter::from(tail.iter().copied()).read_natural::<$t>(None);
                    let bounded = BitIter::from(tail.iter().copied()).read_natural::<$t>(Some(bound));
                    let want_ok = match unbounded {
                        Ok(v) => v <= bound,
                        Err(_) => false,
                    };
                    if bounded.is_ok() != want_ok || (want_ok && bounded.ok() != unbounded.ok()) {
                        fails.push(format!("read_natural::<{}>(Some({})) on the code of {}: unbounded gives {:?}, bounded gives {:?}", stringify!($t), bound, n, BitIter::from(tail.iter().copied()).read_natural::<$t>(None), BitIter::from(tail.iter().copied()).read_natural::<$t>(Some(bound))));
                    }
                }
                if fails.len() >= 8 {
                    break;
                }
            }
        };
    }
    signed_bounds!(i16);
    signed_bounds!(i32);
    signed_bounds!(i64);
    for f in &fails {
        println!("CEX: {}", f);
    }
    assert!(fails.is_empty(), "{} failing input(s)", fails.len());
}
