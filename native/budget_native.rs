// Native bounded stand-in / replay oracle for C19 (attached as `#[cfg(test)] mod` to a verbatim copy of the working tree).
// It runs only when a verifier has reported a failed obligation of unit `budget`, or when part of that unit could not be
// given to the verifier (e.g. the body behind an assumed contract has changed). It compares is_budget_valid / get_padding
// with the witness stack's real consensus serialisation for item counts and item lengths around every CompactSize boundary.
use crate::Cost;
use elements::encode::serialize;

fn stack(n_items: usize, item_len: usize) -> Vec<Vec<u8>> {
    vec![vec![0xabu8; item_len]; n_items]
}

#[test]
fn c19_budget_replay() {
    let mut fails: Vec<String> = Vec::new();
    let counts = [0usize, 1, 2, 5, 251, 252, 253, 254, 300, 65535, 65536];
    let lens = [0usize, 1, 2, 252, 253, 254];
    for &n in &counts {
        for &l in &lens {
            if n * (l + 3) > 3_000_000 {
                continue;
            }
            let st = stack(n, l);
            let budget = serialize(&st).len() as u64 + 50; // weight units
            let mut ws = vec![budget.saturating_sub(2), budget - 1, budget];
            for d in [1u64, 2, 3, 4, 9, 250, 251, 252, 253, 254, 255, 256, 257, 258, 259, 65533, 65534, 65535, 65536, 65537, 65538, 65539, 65540, 65541, 65542, 65543, 65544] {
                ws.push(budget + d);
            }
            for w in ws {
                // the smallest cost of weight exactly w
                let cost = Cost::from_milliweight(((w - 1) * 1000 + 1).min(u32::MAX as u64) as u32);
                let valid = cost.is_budget_valid(&st);
                if valid != (w <= budget) {
                    fails.push(format!("{} items of {} bytes (serialized {} bytes, budget {}): is_budget_valid says {} for weight {}", n, l, budget - 50, budget, valid, w));
                }
                match cost.get_padding(&st) {
                    None => {
                        if w > budget {
                            fails.push(format!("{} items of {} bytes, weight {} > budget {}: get_padding returns None", n, l, w, budget));
                        }
                    }
                    Some(annex) => {
                        if w <= budget {
                            fails.push(format!("{} items of {} bytes, weight {} <= budget {}: get_padding returns {} bytes", n, l, w, budget, annex.len()));
                        } else {
                            let mut padded = st.clone();
                            padded.push(annex.clone());
                            if !cost.is_budget_valid(&padded) || (serialize(&padded).len() as u64 + 50) < w {
                                fails.push(format!("{} items of {} bytes, weight {}: the {}-byte annex is not sufficient", n, l, w, annex.len()));
                            } else if annex.len() > 1 && n != 252 && n != 65535 {
                                // (minimality is only claimed when the item count does not sit on a compact-size boundary)
                                let mut shorter = st.clone();
                                shorter.push(annex[..annex.len() - 1].to_vec());
                                if serialize(&shorter).len() as u64 + 50 >= w {
                                    fails.push(format!("{} items of {} bytes, weight {}: the {}-byte annex is not minimal", n, l, w, annex.len()));
                                }
                            }
                        }
                    }
                }
                if fails.len() >= 8 {
                    break;
                }
            }
        }
    }
    // very large stacks: budget * 1000 exceeds u32 (every consensus-valid cost is within budget then)
    for big in [4_294_911usize, 4_294_912, 4_300_000] {
        let st = vec![vec![0u8; big]];
        let budget = serialize(&st).len() as u64 + 50;
        for cost in [Cost::from_milliweight(705), Cost::from_milliweight(4_000_000_000), Cost::CONSENSUS_MAX] {
            let r = std::panic::catch_unwind(|| (cost.is_budget_valid(&st), cost.get_padding(&st).is_none()));
            match r {
                Ok((true, true)) => {}
                Ok((v, p)) => fails.push(format!("one item of {} bytes (budget {} WU), cost {}: is_budget_valid = {}, get_padding is None = {}", big, budget, cost, v, p)),
                Err(_) => fails.push(format!("one item of {} bytes (budget {} WU), cost {}: is_budget_valid / get_padding PANICS", big, budget, cost)),
            }
        }
    }
    for f in &fails {
        println!("CEX: {}", f);
    }
    assert!(fails.is_empty(), "{} failing input(s)", fails.len());
}
