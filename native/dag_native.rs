// Native bounded stand-in / replay oracle for C18 (attached as `#[cfg(test)] mod` to a verbatim copy of the working tree).
// It runs only when a verifier has reported a failed obligation of unit `dag`, when part of that unit could not be given to
// the verifier, or in the thorough tier as a bounded check of `is_shared_as` (whose verdict no contract covers).
// It builds every comp/pair DAG of depth <= 3 over `unit` with every choice of "reuse the same Arc" / "build an equal copy"
// and compares the library's iterators and sharing check with a reference traversal written here.
use crate::dag::{DagLike, InternalSharing, MaxSharing, NoSharing};
use crate::node::{Commit, CommitNode, ConstructNode, CoreConstructible};
use crate::types;
use std::collections::{HashMap, HashSet};
use std::sync::Arc;

type N<'b> = Arc<ConstructNode<'b>>;

fn ptr<T>(a: &Arc<T>) -> usize {
    Arc::as_ptr(a) as *const u8 as usize
}

/// all DAGs of the given depth: each child is either a fresh equal copy or one of the nodes built so far (shared)
fn dags<'b>(ctx: &types::Context<'b>, depth: usize, pool: &mut Vec<N<'b>>) -> Vec<N<'b>> {
    let mut out = vec![N::unit(ctx)];
    if depth == 0 {
        return out;
    }
    let sub = dags(ctx, depth - 1, pool);
    for a in sub.iter().take(6) {
        for b in sub.iter().take(6) {
            if let Ok(c) = N::comp(a, b) {
                out.push(c);
            }
            if let Ok(c) = N::comp(a, a) {
                out.push(c); // the same Arc twice
            }
            if let Ok(c) = N::comp(&N::take(a), &N::injl(b)) {
                // unary nodes: take / injl over the sub-DAGs, closed off by a unit
                if let Ok(c2) = N::comp(&c, &N::unit(ctx)) {
                    out.push(c2);
                }
            }
            if let (Ok(p), u) = (N::pair(a, b), N::unit(ctx)) {
                if let Ok(c) = N::comp(&p, &u) {
                    out.push(c);
                }
            }
        }
    }
    pool.extend(out.iter().cloned());
    out
}

fn children(n: &CommitNode) -> Vec<&Arc<CommitNode>> {
    use crate::node::Inner::*;
    match n.inner() {
        InjL(c) | InjR(c) | Take(c) | Drop(c) | AssertL(c, _) | AssertR(_, c) => vec![c],
        Comp(a, b) | Case(a, b) | Pair(a, b) => vec![a, b],
        Disconnect(a, _) => vec![a],
        _ => vec![],
    }
}

/// reference post-order over distinct pointers
fn ref_post_order<'a>(root: &'a Arc<CommitNode>, seen: &mut HashSet<usize>, out: &mut Vec<&'a Arc<CommitNode>>) {
    if seen.contains(&ptr(root)) {
        return;
    }
    for c in children(root) {
        ref_post_order(c, seen, out);
    }
    if seen.insert(ptr(root)) {
        out.push(root);
    }
}

fn tree_size(n: &Arc<CommitNode>) -> usize {
    1 + children(n).into_iter().map(tree_size).sum::<usize>()
}

#[test]
fn c18_dag_replay() {
    let mut fails: Vec<String> = Vec::new();
    let (mut tested, mut undershared) = (0usize, 0usize);
    types::Context::with_context(|ctx| {
        let mut pool = Vec::new();
        let all = dags(&ctx, 3, &mut pool);
        for e in all.iter() {
            let prog = match e.finalize_types_non_program() {
                Ok(p) => p,
                Err(_) => continue,
            };
            let name = format!("{}", prog.display_expr());
            // reference: distinct pointers in post-order
            let (mut seen, mut want) = (HashSet::new(), Vec::new());
            ref_post_order(&prog, &mut seen, &mut want);
            // InternalSharing: exactly the distinct pointers, children first, consecutive numbering, child indices right
            let got: Vec<_> = prog.as_ref().post_order_iter::<InternalSharing>().collect();
            let pos: HashMap<usize, usize> = got.iter().enumerate().map(|(i, d)| (d.node as *const CommitNode as usize, i)).collect();
            if got.len() != want.len() || got.iter().zip(&want).any(|(d, w)| d.node as *const CommitNode as usize != ptr(w)) {
                fails.push(format!("{}: post-order with pointer sharing yields {} items, the DAG has {} distinct nodes in another order", name, got.len(), want.len()));
            }
            for (i, d) in got.iter().enumerate() {
                let ch: Vec<usize> = children(d.node).into_iter().map(|c| pos.get(&ptr(c)).copied().unwrap_or(usize::MAX)).collect();
                let reported: Vec<usize> = d.left_index.into_iter().chain(d.right_index).collect();
                let shape_ok = match ch.len() {
                    0 => d.left_index.is_none() && d.right_index.is_none(),
                    1 => d.left_index.is_some() && d.right_index.is_none(),
                    _ => d.left_index.is_some() && d.right_index.is_some(),
                };
                if d.index != i || reported != ch || !shape_ok || ch.iter().any(|&c| c >= i) {
                    fails.push(format!("{}: item {} reports index {} and child indices {:?}; its children were yielded at {:?}", name, i, d.index, reported, ch));
                }
            }
            // right-to-left variant: the same nodes, children still first, and after unswap() left_index / right_index
            // name the positions of the LEFT and RIGHT child
            let rtl: Vec<_> = prog.as_ref().rtl_post_order_iter::<InternalSharing>().collect();
            let rpos: HashMap<usize, usize> = rtl.iter().enumerate().map(|(i, d)| (d.node as *const CommitNode as usize, i)).collect();
            if rtl.len() != want.len() {
                fails.push(format!("{}: right-to-left post-order yields {} items, the DAG has {} distinct nodes", name, rtl.len(), want.len()));
            }
            for (i, d) in rtl.iter().enumerate() {
                let ch: Vec<usize> = children(d.node).into_iter().map(|c| rpos.get(&ptr(c)).copied().unwrap_or(usize::MAX)).collect();
                let reported: Vec<usize> = d.left_index.into_iter().chain(d.right_index).collect();
                let shape_ok = match ch.len() {
                    0 => d.left_index.is_none() && d.right_index.is_none(),
                    1 => d.left_index.is_some() && d.right_index.is_none(),
                    _ => d.left_index.is_some() && d.right_index.is_some(),
                };
                if d.index != i || reported != ch || !shape_ok || ch.iter().any(|&c| c >= i) {
                    fails.push(format!("{}: right-to-left item {} reports index {} and child indices {:?}; its (left, right) children were yielded at {:?}", name, i, d.index, reported, ch));
                }
            }
            if rtl.len() >= 3 {
                // mirror image: for a binary root the right child's subtree comes first
                if let Some(last) = rtl.last() {
                    let cs = children(last.node);
                    if cs.len() == 2 && ptr(cs[0]) != ptr(cs[1]) {
                        if let (Some(&l), Some(&r)) = (rpos.get(&ptr(cs[0])), rpos.get(&ptr(cs[1]))) {
                            let r_in_left = { let (mut s2, mut o2) = (HashSet::new(), Vec::new()); ref_post_order(cs[0], &mut s2, &mut o2); s2.contains(&ptr(cs[1])) };
                            if !r_in_left && r > l {
                                fails.push(format!("{}: right-to-left order yields the root's left child (at {}) before its right child (at {})", name, l, r));
                            }
                        }
                    }
                }
            }
            // NoSharing: the tree unfolding
            let n_tree = prog.as_ref().post_order_iter::<NoSharing>().count();
            if n_tree != tree_size(&prog) {
                fails.push(format!("{}: post-order without sharing yields {} items, the tree unfolding has {}", name, n_tree, tree_size(&prog)));
            }
            // pre-order yields the same set of pointers
            let pre: HashSet<usize> = prog.as_ref().pre_order_iter::<InternalSharing>().map(|n| n as *const CommitNode as usize).collect();
            if pre != seen {
                fails.push(format!("{}: pre-order yields {} distinct nodes, post-order {}", name, pre.len(), seen.len()));
            }
            // sharing check: the pointer structure is maximal sharing iff distinct pointers have distinct identity roots
            let ids: HashSet<_> = want.iter().filter_map(|n| n.ihr()).collect();
            let all_have_id = want.iter().all(|n| n.ihr().is_some());
            tested += 1;
            if all_have_id {
                let expect = ids.len() == want.len();
                if !expect {
                    undershared += 1;
                }
                let verdict = prog.as_ref().is_shared_as::<MaxSharing<Commit>>();
                if verdict != expect {
                    fails.push(format!("{}: {} distinct nodes with {} distinct identity roots, but is_shared_as::<MaxSharing> says {}", name, want.len(), ids.len(), verdict));
                }
            }
            if prog.as_ref().is_shared_as::<InternalSharing>() != true {
                fails.push(format!("{}: is_shared_as::<InternalSharing> is false on the DAG's own pointer structure", name));
            }
            if prog.as_ref().is_shared_as::<NoSharing>() != (want.len() == tree_size(&prog)) {
                fails.push(format!("{}: is_shared_as::<NoSharing> disagrees with 'no node is shared'", name));
            }
            if fails.len() >= 8 {
                break;
            }
        }
    });
    println!("TESTED: {} programs, {} of them not maximally shared", tested, undershared);
    for f in &fails {
        println!("CEX: {}", f);
    }
    assert!(tested > 50 && undershared > 10, "the enumeration is too small to mean anything");
    assert!(fails.is_empty(), "{} failing DAG(s)", fails.len());
}
