// Native replay oracle for C09 (attached as `#[cfg(test)] mod` to a verbatim copy of the working tree). NOT the deciding
// step: it runs only after Verus has reported a failed obligation of unit `cmr`, to turn that report into a concrete
// program on the real code (or to say none was found). It builds every combinator tree of depth <= 2 over a few leaves
// through the SAME generic construction code instantiated three ways - real nodes, bare roots (ConstructibleCmr), and the
// hiding wrapper with one sub-expression hidden - and compares each root with an independent reference that hashes the
// tagged tree from scratch with SHA-256.
use crate::jet::Core;
use crate::merkle::cmr::ConstructibleCmr;
use crate::node::{ConstructData, ConstructNode, CoreConstructible, DisconnectConstructible, Hiding, Inner, Node, WitnessConstructible};
use crate::{types, FailEntropy, HasCmr, Value};
use hashes::sha256::{HashEngine, Midstate};
use hashes::HashEngine as _;
use std::sync::Arc;

#[derive(Clone, Debug)]
enum Shape {
    Iden,
    Unit,
    Witness,
    Fail,
    InjL(Box<Shape>),
    InjR(Box<Shape>),
    Take(Box<Shape>),
    Drop(Box<Shape>),
    Comp(Box<Shape>, Box<Shape>),
    Pair(Box<Shape>, Box<Shape>),
    Case(Box<Shape>, Box<Shape>),
    Disconnect(Box<Shape>),
}

fn tag(name: &str, data: &[u8; 64]) -> [u8; 32] {
    let iv = Midstate::hash_tag(format!("Simplicity\x1fCommitment\x1f{}", name).as_bytes());
    let mut e = HashEngine::from_midstate(iv);
    e.input(data);
    e.midstate().unwrap().to_parts().0
}

fn iv_root(name: &str) -> [u8; 32] {
    Midstate::hash_tag(format!("Simplicity\x1fCommitment\x1f{}", name).as_bytes()).to_parts().0
}

fn cat(a: &[u8; 32], b: &[u8; 32]) -> [u8; 64] {
    let mut r = [0u8; 64];
    r[..32].copy_from_slice(a);
    r[32..].copy_from_slice(b);
    r
}

/// the root obtained by hashing the tagged combinator tree from scratch
/// fail entropy with two different halves and no repeated byte
fn entropy() -> [u8; 64] {
    let mut e = [0u8; 64];
    for (i, b) in e.iter_mut().enumerate() {
        *b = (i as u8).wrapping_mul(37).wrapping_add(11);
    }
    e
}

fn reference(s: &Shape) -> [u8; 32] {
    let z = [0u8; 32];
    match s {
        Shape::Iden => iv_root("iden"),
        Shape::Unit => iv_root("unit"),
        Shape::Witness => iv_root("witness"),
        Shape::Fail => tag("fail", &entropy()),
        Shape::InjL(c) => tag("injl", &cat(&z, &reference(c))),
        Shape::InjR(c) => tag("injr", &cat(&z, &reference(c))),
        Shape::Take(c) => tag("take", &cat(&z, &reference(c))),
        Shape::Drop(c) => tag("drop", &cat(&z, &reference(c))),
        Shape::Disconnect(c) => tag("disconnect", &cat(&z, &reference(c))),
        Shape::Comp(l, r) => tag("comp", &cat(&reference(l), &reference(r))),
        Shape::Pair(l, r) => tag("pair", &cat(&reference(l), &reference(r))),
        Shape::Case(l, r) => tag("case", &cat(&reference(l), &reference(r))),
    }
}

fn build<'brand, T>(ctx: &types::Context<'brand>, s: &Shape) -> Option<T>
where
    T: CoreConstructible<'brand> + DisconnectConstructible<'brand, Option<Arc<ConstructNode<'brand>>>> + WitnessConstructible<'brand, Option<Value>>,
{
    Some(match s {
        Shape::Iden => T::iden(ctx),
        Shape::Unit => T::unit(ctx),
        Shape::Witness => T::witness(ctx, Some(Value::u8(0x5a))),
        Shape::Fail => T::fail(ctx, FailEntropy::from_byte_array(entropy())),
        Shape::InjL(c) => T::injl(&build(ctx, c)?),
        Shape::InjR(c) => T::injr(&build(ctx, c)?),
        Shape::Take(c) => T::take(&build(ctx, c)?),
        Shape::Drop(c) => T::drop_(&build(ctx, c)?),
        Shape::Disconnect(c) => T::disconnect(&build(ctx, c)?, &Some(Arc::<ConstructNode>::unit(ctx))).ok()?,
        Shape::Comp(l, r) => T::comp(&build(ctx, l)?, &build(ctx, r)?).ok()?,
        Shape::Pair(l, r) => T::pair(&build(ctx, l)?, &build(ctx, r)?).ok()?,
        Shape::Case(l, r) => T::case(&build(ctx, l)?, &build(ctx, r)?).ok()?,
    })
}

fn shapes(d: usize) -> Vec<Shape> {
    let mut out = vec![Shape::Iden, Shape::Unit, Shape::Witness, Shape::Fail];
    if d == 0 {
        return out;
    }
    let sub = shapes(d - 1);
    for a in &sub {
        let b = || Box::new(a.clone());
        out.extend([Shape::InjL(b()), Shape::InjR(b()), Shape::Take(b()), Shape::Drop(b()), Shape::Disconnect(b())]);
    }
    for a in sub.iter().take(10) {
        for c in sub.iter().take(10) {
            let (x, y) = (Box::new(a.clone()), Box::new(c.clone()));
            out.extend([Shape::Comp(x.clone(), y.clone()), Shape::Pair(x.clone(), y.clone()), Shape::Case(x, y)]);
        }
    }
    out
}

#[test]
fn c09_cmr_replay() {
    let mut fails = Vec::new();
    let _ = Core::Verify;
    for s in shapes(2) {
        let want = reference(&s);
        types::Context::with_context(|ctx| {
            if let Some(n) = build::<Arc<ConstructNode>>(&ctx, &s) {
                if n.cmr().as_ref() != &want[..] {
                    fails.push(format!("node built for {:?} has root {}, the tagged tree hashes to {:02x?}", s, n.cmr(), want));
                }
                // Node::from_parts over every unary / assertion shape of this node agrees with the reference
                {
                    let h = reference(&Shape::Iden);
                    let hid = crate::Cmr::from_byte_array(h);
                    let d = n.cached_data();
                    let cases: Vec<(&str, Option<ConstructNode>, [u8; 32])> = vec![
                        ("injl", Some(Node::from_parts(Inner::InjL(Arc::clone(&n)), ConstructData::injl(d))), tag("injl", &cat(&[0u8; 32], &want))),
                        ("injr", Some(Node::from_parts(Inner::InjR(Arc::clone(&n)), ConstructData::injr(d))), tag("injr", &cat(&[0u8; 32], &want))),
                        ("take", Some(Node::from_parts(Inner::Take(Arc::clone(&n)), ConstructData::take(d))), tag("take", &cat(&[0u8; 32], &want))),
                        ("drop", Some(Node::from_parts(Inner::Drop(Arc::clone(&n)), ConstructData::drop_(d))), tag("drop", &cat(&[0u8; 32], &want))),
                        ("assertl", ConstructData::assertl(d, hid).ok().map(|cd| Node::from_parts(Inner::AssertL(Arc::clone(&n), hid), cd)), tag("case", &cat(&want, &h))),
                        ("assertr", ConstructData::assertr(hid, d).ok().map(|cd| Node::from_parts(Inner::AssertR(hid, Arc::clone(&n)), cd)), tag("case", &cat(&h, &want))),
                    ];
                    for (name, node, expect) in cases {
                        if let Some(node) = node {
                            if node.cmr().as_ref() != &expect[..] {
                                fails.push(format!("Node::from_parts({} over {:?}) has root {}, the tagged tree hashes to {:02x?}", name, s, node.cmr(), expect));
                            }
                        }
                    }
                }
                // conversions keep the root: construction -> commitment -> (with the attached witnesses) redemption
                if let Ok(c) = n.finalize_types_non_program() {
                    if c.cmr() != n.cmr() {
                        fails.push(format!("{:?}: the commitment-time node has root {}, the construction-time node {}", s, c.cmr(), n.cmr()));
                    }
                }
                if let Ok(r) = n.finalize_unpruned() {
                    if r.cmr() != n.cmr() {
                        fails.push(format!("{:?}: the redemption-time node has root {}, the construction-time node {}", s, r.cmr(), n.cmr()));
                    }
                }
            }
            if let Some(c) = build::<ConstructibleCmr>(&ctx, &s) {
                if c.cmr.as_ref() != &want[..] {
                    fails.push(format!("ConstructibleCmr for {:?} is {}, the tagged tree hashes to {:02x?}", s, c.cmr, want));
                }
            }
            if let Some(h) = build::<Hiding<Arc<ConstructNode>>>(&ctx, &s) {
                if h.cmr().as_ref() != &want[..] {
                    fails.push(format!("Hiding-wrapped {:?} has root {}, expected {:02x?}", s, h.cmr(), want));
                }
                let hidden = h.hide();
                if hidden.cmr().as_ref() != &want[..] {
                    fails.push(format!("after hide(), {:?} has root {}, expected {:02x?}", s, hidden.cmr(), want));
                }
                // hide the expression, then use it as the child of each unary combinator and as either child of case
                type H<'b> = Hiding<'b, Arc<ConstructNode<'b>>>;
                let bx = || Box::new(s.clone());
                let unary: [(&str, H, Shape); 4] = [
                    ("injl", H::injl(&hidden), Shape::InjL(bx())),
                    ("injr", H::injr(&hidden), Shape::InjR(bx())),
                    ("take", H::take(&hidden), Shape::Take(bx())),
                    ("drop", H::drop_(&hidden), Shape::Drop(bx())),
                ];
                for (name, got, shape) in unary.iter() {
                    if got.cmr().as_ref() != &reference(shape)[..] {
                        fails.push(format!("{} over hidden {:?} has root {}, expected {:02x?}", name, s, got.cmr(), reference(shape)));
                    }
                }
                if let Ok(d) = H::disconnect(&hidden, &None::<Arc<ConstructNode>>) {
                    if d.cmr().as_ref() != &reference(&Shape::Disconnect(bx()))[..] {
                        fails.push(format!("disconnect over hidden {:?} has root {}", s, d.cmr()));
                    }
                }
                if let Some(u) = build::<H>(&ctx, &Shape::Unit) {
                    // every placement of the hidden expression under the binary combinators: left, right, both
                    for (name, got, shape) in [
                        ("comp(hidden, visible)", H::comp(&hidden, &u), Shape::Comp(bx(), Box::new(Shape::Unit))),
                        ("comp(visible, hidden)", H::comp(&u, &hidden), Shape::Comp(Box::new(Shape::Unit), bx())),
                        ("comp(hidden, hidden)", H::comp(&hidden, &hidden), Shape::Comp(bx(), bx())),
                        ("pair(visible, hidden)", H::pair(&u, &hidden), Shape::Pair(Box::new(Shape::Unit), bx())),
                        ("pair(hidden, visible)", H::pair(&hidden, &u), Shape::Pair(bx(), Box::new(Shape::Unit))),
                        ("pair(hidden, hidden)", H::pair(&hidden, &hidden), Shape::Pair(bx(), bx())),
                        ("case(visible, hidden)", H::case(&u, &hidden), Shape::Case(Box::new(Shape::Unit), bx())),
                        ("case(hidden, hidden)", H::case(&hidden, &hidden), Shape::Case(bx(), bx())),
                    ] {
                        if let Ok(g) = got {
                            if g.cmr().as_ref() != &reference(&shape)[..] {
                                fails.push(format!("{} with hidden {:?} has root {}", name, s, g.cmr()));
                            }
                        }
                    }
                }
                if let (Some(u), Some(vis)) = (build::<H>(&ctx, &Shape::Unit), build::<H>(&ctx, &s)) {
                    // assertions whose executed child is hidden or visible, the pruned branch given by the root of `unit`
                    // (seed C09-6): same root as the case node over the two expressions
                    let unit = || Box::new(Shape::Unit);
                    for (name, got, shape) in [
                        ("assertl(hidden, #unit)", H::assertl(&hidden, u.cmr()), Shape::Case(bx(), unit())),
                        ("assertl(visible, #unit)", H::assertl(&vis, u.cmr()), Shape::Case(bx(), unit())),
                        ("assertr(#unit, hidden)", H::assertr(u.cmr(), &hidden), Shape::Case(unit(), bx())),
                        ("assertr(#unit, visible)", H::assertr(u.cmr(), &vis), Shape::Case(unit(), bx())),
                    ] {
                        if let Ok(g) = got {
                            if g.cmr().as_ref() != &reference(&shape)[..] {
                                fails.push(format!("{} over {:?} has root {}, expected {:02x?}", name, s, g.cmr(), reference(&shape)));
                            }
                        }
                    }
                }
                if let Some(u) = build::<Hiding<Arc<ConstructNode>>>(&ctx, &Shape::Unit) {
                    let want_case = reference(&Shape::Case(Box::new(s.clone()), Box::new(Shape::Unit)));
                    if let Ok(c) = Hiding::<Arc<ConstructNode>>::case(&hidden, &u) {
                        if c.cmr().as_ref() != &want_case[..] {
                            fails.push(format!("case(hidden {:?}, unit) has root {}", s, c.cmr()));
                        }
                    }
                }
            }
        });
        if fails.len() >= 8 {
            break;
        }
    }
    for f in &fails {
        println!("CEX: {}", f);
    }
    assert!(fails.is_empty(), "{} failing program(s)", fails.len());
}
