// Native replay oracle for the codec clauses of C01/C02 (attached as `#[cfg(test)] mod` to a verbatim copy of the
// working tree). NOT the deciding step: it runs only after Verus has reported a failed obligation of units
// `decode` / `encode`, to turn that report into a concrete failing input on the real code (or to say none was found).
// It offers every byte string of up to three bytes to the commitment-time decoder and to the expression decoder
// (Core jets): decoding must not panic, and whatever the commitment-time decoder accepts must re-encode to exactly the
// input; an expression that decodes and has no repeated sub-expression must re-encode to the input as well.
use crate::jet::{Core, CoreEnv};
use crate::types::Final;
use crate::node::{CommitNode, ConstructNode, CoreConstructible, DisconnectConstructible, RedeemNode, WitnessConstructible};
use crate::types;
use crate::dag::{DagLike, InternalSharing};
use crate::node::Inner;
use crate::{BitIter, FailEntropy, HasCmr, Value, Word};
use std::sync::Arc;

fn try_one(bytes: &[u8], fails: &mut Vec<String>) {
    let owned = bytes.to_vec();
    let res = std::panic::catch_unwind(move || {
        match CommitNode::decode::<_, Core>(BitIter::from(&owned[..])) {
            Ok(prog) => Some(prog.to_vec_without_witness()),
            Err(_) => None,
        }
    });
    match res {
        Err(_) => fails.push(format!("input {:02x?}: decoding or re-encoding PANICS", bytes)),
        Ok(Some(re)) if re != bytes => fails.push(format!("input {:02x?} decodes, but the program re-encodes as {:02x?}", bytes, re)),
        _ => {}
    }
    // expression level (no root-type and no sharing requirement): single-node expressions and expressions the
    // encoder cannot share differently
    let owned = bytes.to_vec();
    let res = std::panic::catch_unwind(move || {
        types::Context::with_context(|ctx| match ConstructNode::decode::<_, Core>(&ctx, BitIter::from(&owned[..])) {
            Ok(expr) => Some(expr.to_vec_without_witness()),
            Err(_) => None,
        })
    });
    match res {
        Err(_) => fails.push(format!("input {:02x?}: expression decoding or re-encoding PANICS", bytes)),
        Ok(Some(re)) if re != bytes && re.len() == bytes.len() => {
            fails.push(format!("input {:02x?} decodes as an expression, but re-encodes as {:02x?}", bytes, re))
        }
        _ => {}
    }
}

/// redeem-time decoder: program and witness must both re-encode to exactly the input
fn try_redeem(prog: &[u8], wit: &[u8], fails: &mut Vec<String>) {
    let (p, w) = (prog.to_vec(), wit.to_vec());
    let res = std::panic::catch_unwind(move || {
        match RedeemNode::decode::<_, _, Core>(BitIter::from(&p[..]), BitIter::from(&w[..])) {
            Ok(prog) => {
                // C12: every witness of a decoded redemption program has its node's target type
                for data in prog.as_ref().post_order_iter::<InternalSharing>() {
                    if let Inner::Witness(v) = data.node.inner() {
                        assert!(v.is_of_type(&data.node.arrow().target), "ILL-TYPED WITNESS {} at a node of target type {}", v, data.node.arrow().target);
                    }
                }
                Some(prog.to_vec_with_witness())
            }
            Err(_) => None,
        }
    });
    match res {
        Err(_) => fails.push(format!("program {:02x?} witness {:02x?}: redeem-time decoding or re-encoding PANICS", prog, wit)),
        Ok(Some((rp, rw))) if rp != prog || rw != wit => fails.push(format!(
            "program {:02x?} witness {:02x?} is accepted by RedeemNode::decode, but re-encodes as program {:02x?} witness {:02x?}",
            prog, wit, rp, rw
        )),
        _ => {}
    }
}

/// the tree unfolding of an expression as text: kind of every node (with hidden roots, words, jets, fail entropy)
fn shape<M: crate::node::Marker>(n: &crate::node::Node<M>) -> String {
    let kind = format!("{:?}", n.inner().as_ref().map(|_| ()).map_disconnect(|_| ()).map_witness(|_| ()));
    let l = n.left_child().map(|c| shape(c)).unwrap_or_default();
    let r = n.right_child().map(|c| shape(c)).unwrap_or_default();
    format!("{}[{}|{}]", kind, l, r)
}

/// encode then decode: expressions built with the constructors (every combinator, a fail node with non-symmetric
/// entropy, words, a jet, hidden branches) must decode to an expression with the same root and the same bytes
fn encode_then_decode(fails: &mut Vec<String>) {
    types::Context::with_context(|ctx| {
        type N<'b> = Arc<ConstructNode<'b>>;
        let mut entropy = [0u8; 64];
        for (i, b) in entropy.iter_mut().enumerate() {
            *b = (i as u8).wrapping_mul(37).wrapping_add(1);
        }
        let leaves: Vec<(&str, N)> = vec![
            ("iden", N::iden(&ctx)),
            ("unit", N::unit(&ctx)),
            ("fail", N::fail(&ctx, FailEntropy::from_byte_array(entropy))),
            ("word8", N::const_word(&ctx, Word::u8(0xa5))),
            ("word1", N::const_word(&ctx, Word::u1(1))),
            ("word64", N::const_word(&ctx, Word::u64(0x0123_4567_89ab_cdef))),
            ("jet", N::jet(&ctx, &Core::Add8)),
            ("witness", N::witness(&ctx, None::<Value>)),
        ];
        let mut exprs: Vec<(String, N)> = leaves.iter().map(|(n, e)| (n.to_string(), Arc::clone(e))).collect();
        for (n, e) in &leaves {
            exprs.push((format!("injl {}", n), N::injl(e)));
            exprs.push((format!("injr {}", n), N::injr(e)));
            exprs.push((format!("take {}", n), N::take(e)));
            exprs.push((format!("drop {}", n), N::drop_(e)));
            if let Ok(d) = N::disconnect(e, &None) {
                exprs.push((format!("disconnect {}", n), d));
            }
            if let Ok(a) = N::assertl(e, N::unit(&ctx).cmr()) {
                exprs.push((format!("assertl {} #unit", n), a));
            }
            if let Ok(a) = N::assertr(N::iden(&ctx).cmr(), e) {
                exprs.push((format!("assertr #iden {}", n), a));
            }
            for (m, f) in &leaves {
                if let Ok(x) = N::comp(e, f) {
                    exprs.push((format!("comp {} {}", n, m), x));
                }
                if let Ok(x) = N::pair(e, f) {
                    exprs.push((format!("pair {} {}", n, m), x));
                }
                if let Ok(x) = N::case(e, f) {
                    exprs.push((format!("case {} {}", n, m), x));
                }
            }
        }
        // a hidden branch whose root EQUALS the root of a real node of the same program (emitted before or after it):
        // hidden nodes are shared among themselves by root, never with real nodes (seed C01-5)
        let n_plain = exprs.len();
        for i in 0..n_plain {
            let (n, e) = (exprs[i].0.clone(), Arc::clone(&exprs[i].1));
            let hidden_l = N::assertl(&N::unit(&ctx), e.cmr());
            let hidden_r = N::assertr(e.cmr(), &N::unit(&ctx));
            for (tag, h) in [("assertl unit", hidden_l), ("assertr", hidden_r)] {
                let h = match h {
                    Ok(h) => h,
                    Err(_) => continue,
                };
                if let Ok(x) = N::pair(&e, &h) {
                    exprs.push((format!("pair ({}) ({} #root-of-the-left-child)", n, tag), x));
                }
                if let Ok(x) = N::pair(&h, &e) {
                    exprs.push((format!("pair ({} #root-of-the-right-child) ({})", tag, n), x));
                }
                if let Ok(x) = N::comp(&e, &h) {
                    exprs.push((format!("comp ({}) ({} #root-of-the-left-child)", n, tag), x));
                }
            }
        }
        for (name, e) in exprs {
            let bytes = e.to_vec_without_witness();
            types::Context::with_context(|ctx2| match ConstructNode::decode::<_, Core>(&ctx2, BitIter::from(&bytes[..])) {
                Ok(back) => {
                    if back.cmr() != e.cmr() {
                        fails.push(format!("expression `{}` encodes as {:02x?}, which decodes to an expression with root {} instead of {}", name, bytes, back.cmr(), e.cmr()));
                    } else if shape(&back) != shape(&e) {
                        fails.push(format!("expression `{}` encodes as {:02x?}, which decodes to another expression: {} instead of {}", name, bytes, shape(&back), shape(&e)));
                    } else if back.to_vec_without_witness() != bytes {
                        fails.push(format!("expression `{}` encodes as {:02x?} but re-encodes as {:02x?} after decoding", name, bytes, back.to_vec_without_witness()));
                    }
                }
                Err(err) => fails.push(format!("expression `{}` encodes as {:02x?}, which does not decode: {}", name, bytes, err)),
            });
            if fails.len() >= 10 {
                break;
            }
        }
    });
}

/// commitment-time programs in which a hidden branch's root EQUALS the root of a real node emitted earlier (nodes of
/// typed programs have sharing ids, so the encoder's tracker sees both keys): the hidden branch must stay a hidden
/// node - same root, same shape, same bytes after decoding (seed C01-5)
fn hidden_root_equals_real_root(fails: &mut Vec<String>) {
    for k in 0..8usize {
        let res = std::panic::catch_unwind(move || {
            types::Context::with_context(|ctx| -> Option<String> {
                type N<'b> = Arc<ConstructNode<'b>>;
                let u = N::unit(&ctx);
                let w = N::const_word(&ctx, Word::u8(7));
                let a = match k % 4 {
                    0 => N::injl(&u),
                    1 => N::injr(&u),
                    2 => N::injl(&w),
                    _ => N::injr(&w),
                };
                let input = N::pair(&a, &N::unit(&ctx)).ok()?;
                let h = if k < 4 { N::assertl(&N::unit(&ctx), input.cmr()) } else { N::assertr(input.cmr(), &N::unit(&ctx)) }.ok()?;
                let main = N::comp(&input, &h).ok()?;
                let commit = main.finalize_types().ok()?;
                let bytes = commit.to_vec_without_witness();
                let name = format!("comp (pair (inj{} {}) unit) (assert{} with the hidden root of the left child)", if k % 2 == 0 { "l" } else { "r" }, if k % 4 < 2 { "unit" } else { "word8" }, if k < 4 { "l" } else { "r" });
                match CommitNode::decode::<_, Core>(BitIter::from(&bytes[..])) {
                    Ok(back) => {
                        if back.cmr() != commit.cmr() {
                            Some(format!("program `{}` encodes as {:02x?}, which decodes to a program with root {} instead of {}", name, bytes, back.cmr(), commit.cmr()))
                        } else if shape(&back) != shape(&commit) {
                            Some(format!("program `{}` encodes as {:02x?}, which decodes to another program: {} instead of {}", name, bytes, shape(&back), shape(&commit)))
                        } else if back.to_vec_without_witness() != bytes {
                            Some(format!("program `{}` encodes as {:02x?} but re-encodes as {:02x?}", name, bytes, back.to_vec_without_witness()))
                        } else {
                            None
                        }
                    }
                    Err(err) => Some(format!("program `{}` encodes as {:02x?}, which does not decode: {}", name, bytes, err)),
                }
            })
        });
        match res {
            Err(_) => fails.push(format!("hidden-root-equals-real-root program #{}: encoding or decoding PANICS", k)),
            Ok(Some(f)) => fails.push(f),
            Ok(None) => {}
        }
    }
}

/// redemption programs with witnesses of several inferred types: serialise, decode, compare everything. Every program is
/// built in an inference context of its own (a node shared between programs would tie their types together).
fn redeem_round_trips(fails: &mut Vec<String>) {
    type N<'b> = Arc<ConstructNode<'b>>;
    fn build<'b>(ctx: &types::Context<'b>, k: usize) -> Option<(&'static str, N<'b>)> {
        let wit = || N::witness(ctx, None::<Value>);
        let unit = N::unit(ctx);
        // witness target types: 1, 1 x 1 (zero width, not unit), 2^8 x 2^8, (A+B) x C, 2^64 x 2^64, two witnesses
        Some(match k {
            0 => ("comp witness unit", N::comp(&wit(), &unit).ok()?),
            1 => ("comp witness (take unit)", N::comp(&wit(), &N::take(&unit)).ok()?),
            2 => ("comp (comp witness jet_add_8) unit", N::comp(&N::comp(&wit(), &N::jet(ctx, &Core::Add8)).ok()?, &unit).ok()?),
            3 => ("comp witness (case (drop unit) (drop unit))", N::comp(&wit(), &N::case(&N::drop_(&unit), &N::drop_(&N::unit(ctx))).ok()?).ok()?),
            4 => ("comp (comp witness jet_eq_64) unit", N::comp(&N::comp(&wit(), &N::jet(ctx, &Core::Eq64)).ok()?, &unit).ok()?),
            5 => (
                "comp (comp (pair witness witness) jet_add_8) unit",
                N::comp(&N::comp(&N::pair(&wit(), &wit()).ok()?, &N::jet(ctx, &Core::Add8)).ok()?, &unit).ok()?,
            ),
            // witness of type 2^16 + 2^8 (sum with unequal branches), explicit values on either side, then pruned
            6 | 7 => {
                let v = if k == 6 {
                    Value::left(Value::u16(0), Final::two_two_n(3).unwrap())
                } else {
                    Value::right(Final::two_two_n(4).unwrap(), Value::u8(0))
                };
                let input = N::pair(&N::witness(ctx, Some(v)), &unit).ok()?;
                let process = N::case(&N::take(&N::jet(ctx, &Core::IsZero16)), &N::take(&N::jet(ctx, &Core::IsZero8))).ok()?;
                let tail = N::comp(&process, &N::jet(ctx, &Core::Verify)).ok()?;
                ("comp (pair witness unit) (comp (case (take is_zero_16) (take is_zero_8)) verify)", N::comp(&input, &tail).ok()?)
            }
            _ => return None,
        })
    }
    for k in 0..8 {
        types::Context::with_context(|ctx| {
            let (name, e) = match build(&ctx, k) {
                Some(x) => x,
                None => return,
            };
            let redeem = match e.finalize_unpruned() {
                Ok(r) => r,
                Err(_) => return,
            };
            // C12 / C08: pruning for an environment keeps every witness well typed and the result round-trips too
            if let Ok(pruned) = redeem.prune(&CoreEnv::new()) {
                let ok = pruned.as_ref().post_order_iter::<InternalSharing>().all(|d| match d.node.inner() {
                    Inner::Witness(v) => v.is_of_type(&d.node.arrow().target),
                    _ => true,
                });
                if !ok {
                    fails.push(format!("program `{}`: after prune() a witness does not have its node's target type", name));
                }
                let (pp, pw) = pruned.to_vec_with_witness();
                match RedeemNode::decode::<_, _, Core>(BitIter::from(&pp[..]), BitIter::from(&pw[..])) {
                    Ok(back) if back.to_vec_with_witness() == (pp.clone(), pw.clone()) => {}
                    Ok(_) => fails.push(format!("program `{}` pruned ({:02x?} / {:02x?}) re-encodes differently after decoding", name, pp, pw)),
                    Err(e) => fails.push(format!("program `{}` pruned serialises as {:02x?} / {:02x?}, which does not decode: {}", name, pp, pw, e)),
                }
            }
            let (pb, wb) = redeem.to_vec_with_witness();
            let (p2, w2) = (pb.clone(), wb.clone());
            let res = std::panic::catch_unwind(move || {
                RedeemNode::decode::<_, _, Core>(BitIter::from(&p2[..]), BitIter::from(&w2[..])).map(|back| {
                    let ok_types = back.as_ref().post_order_iter::<InternalSharing>().all(|d| match d.node.inner() {
                        Inner::Witness(v) => v.is_of_type(&d.node.arrow().target),
                        _ => true,
                    });
                    (back.cmr(), back.to_vec_with_witness(), ok_types)
                })
            });
            match res {
                Err(_) => fails.push(format!("program `{}` ({:02x?} / {:02x?}): decoding PANICS", name, pb, wb)),
                Ok(Err(e)) => fails.push(format!("program `{}` serialises as {:02x?} / {:02x?}, which does not decode: {}", name, pb, wb, e)),
                Ok(Ok((cmr, bytes, ok_types))) => {
                    if cmr != redeem.cmr() || bytes != (pb.clone(), wb.clone()) {
                        fails.push(format!("program `{}` ({:02x?} / {:02x?}) comes back with root {} and bytes {:02x?}", name, pb, wb, cmr, bytes));
                    }
                    if !ok_types {
                        fails.push(format!("program `{}` ({:02x?} / {:02x?}): a decoded witness does not have its node's target type", name, pb, wb));
                    }
                }
            }
        });
    }
}

#[test]
fn c02_codec_replay() {
    std::panic::set_hook(Box::new(|_| {}));
    let mut fails = Vec::new();
    encode_then_decode(&mut fails);
    hidden_root_equals_real_root(&mut fails);
    redeem_round_trips(&mut fails);
    for a in 0u32..256 {
        try_one(&[a as u8], &mut fails);
        for w in [&[][..], &[0x00][..], &[0x80][..]] {
            try_redeem(&[a as u8], w, &mut fails);
        }
    }
    for x in 0u32..(1 << 16) {
        try_one(&[(x >> 8) as u8, x as u8], &mut fails);
        for w in [&[][..], &[0x00][..], &[0x80][..]] {
            try_redeem(&[(x >> 8) as u8, x as u8], w, &mut fails);
        }
    }
    for x in 0u32..(1 << 24) {
        try_one(&[(x >> 16) as u8, (x >> 8) as u8, x as u8], &mut fails);
        try_redeem(&[(x >> 16) as u8, (x >> 8) as u8, x as u8], &[], &mut fails);
        if fails.len() >= 10 {
            break;
        }
    }
    // long runs of one-bits (the unary prefix of a natural number) before a short tail
    for k in 1usize..=40 {
        for tail in 0u32..(1 << 16) {
            let mut v = vec![0xffu8; k];
            v.push((tail >> 8) as u8);
            if tail & 0xff != 0 {
                v.push(tail as u8);
            }
            try_one(&v, &mut fails);
        }
        if fails.len() >= 10 {
            break;
        }
    }
    let _ = std::panic::take_hook();
    for f in &fails {
        println!("CEX: {}", f);
    }
    assert!(fails.is_empty(), "{} failing input(s)", fails.len());
}
