// Native replay oracle for the codec clauses of C01/C02 (attached as `#[cfg(test)] mod` to a verbatim copy of the
// working tree). NOT the deciding step: it runs only after Verus has reported a failed obligation of units
// `decode` / `encode`, to turn that report into a concrete failing input on the real code (or to say none was found).
// It offers every byte string of up to three bytes to the commitment-time decoder and to the expression decoder
// (Core jets): decoding must not panic, and whatever the commitment-time decoder accepts must re-encode to exactly the
// input; an expression that decodes and has no repeated sub-expression must re-encode to the input as well.
use crate::jet::Core;
use crate::node::{CommitNode, ConstructNode};
use crate::types;
use crate::BitIter;

fn try_one(bytes: &[u8], fails: &mut Vec<String>) {
    let owned = bytes.to_vec();
    let res = std::panic::catch_unwind(move || {
        match CommitNode::decode::<_, Core>(BitIter::from(&owned[..])) {
            Ok(prog) => Some(prog.to_vec_without_witness()),
            Err(_) => None,
        }
    });
    match res {
        Err(_) => fails.push(format!("input {:02x?}: decoding or re-encoding PANICS", bytes)),
        Ok(Some(re)) if re != bytes => fails.push(format!("input {:02x?} decodes, but the program re-encodes as {:02x?}", bytes, re)),
        _ => {}
    }
    // expression level (no root-type and no sharing requirement): single-node expressions and expressions the
    // encoder cannot share differently
    let owned = bytes.to_vec();
    let res = std::panic::catch_unwind(move || {
        types::Context::with_context(|ctx| match ConstructNode::decode::<_, Core>(&ctx, BitIter::from(&owned[..])) {
            Ok(expr) => Some(expr.to_vec_without_witness()),
            Err(_) => None,
        })
    });
    match res {
        Err(_) => fails.push(format!("input {:02x?}: expression decoding or re-encoding PANICS", bytes)),
        Ok(Some(re)) if re != bytes && re.len() == bytes.len() => {
            fails.push(format!("input {:02x?} decodes as an expression, but re-encodes as {:02x?}", bytes, re))
        }
        _ => {}
    }
}

#[test]
fn c02_codec_replay() {
    std::panic::set_hook(Box::new(|_| {}));
    let mut fails = Vec::new();
    for a in 0u32..256 {
        try_one(&[a as u8], &mut fails);
    }
    for x in 0u32..(1 << 16) {
        try_one(&[(x >> 8) as u8, x as u8], &mut fails);
    }
    for x in 0u32..(1 << 24) {
        try_one(&[(x >> 16) as u8, (x >> 8) as u8, x as u8], &mut fails);
        if fails.len() >= 10 {
            break;
        }
    }
    // long runs of one-bits (the unary prefix of a natural number) before a short tail
    for k in 1usize..=40 {
        for tail in 0u32..(1 << 16) {
            let mut v = vec![0xffu8; k];
            v.push((tail >> 8) as u8);
            if tail & 0xff != 0 {
                v.push(tail as u8);
            }
            try_one(&v, &mut fails);
        }
        if fails.len() >= 10 {
            break;
        }
    }
    let _ = std::panic::take_hook();
    for f in &fails {
        println!("CEX: {}", f);
    }
    assert!(fails.is_empty(), "{} failing input(s)", fails.len());
}
