// Native bounded stand-in / replay oracle for C11 (and the accessor clauses of C10), attached as `#[cfg(test)] mod` to a
// verbatim copy of the working tree. It runs only when a verifier has reported a failed obligation of unit `value`, or
// when part of that unit could not be given to the verifier. It builds small values in every way the library offers -
// constructors, decoding from padded and from compact bits, sub-value extraction from shared buffers - and checks that
// equality, ordering and hashing are functions of (type, compact bit string) and agree with each other.
use crate::types::Final;
use crate::{BitIter, Value};
use std::cmp::Ordering;
use std::collections::hash_map::DefaultHasher;
use std::hash::{Hash, Hasher};
use std::sync::Arc;

fn hash_of(v: &Value) -> u64 {
    let mut h = DefaultHasher::new();
    v.hash(&mut h);
    h.finish()
}

fn bits(v: &Value) -> Vec<bool> {
    v.iter_compact().collect()
}

fn subvalues(v: &Value, out: &mut Vec<Value>, depth: usize) {
    if depth == 0 {
        return;
    }
    if let Some((a, b)) = v.as_product() {
        let (a, b) = (a.to_value(), b.to_value());
        subvalues(&a, out, depth - 1);
        subvalues(&b, out, depth - 1);
        out.push(a);
        out.push(b);
    }
    if let Some(l) = v.as_left() {
        let l = l.to_value();
        subvalues(&l, out, depth - 1);
        out.push(l);
    }
    if let Some(r) = v.as_right() {
        let r = r.to_value();
        subvalues(&r, out, depth - 1);
        out.push(r);
    }
}

#[test]
fn c11_value_order_replay() {
    let mut vals: Vec<Value> = vec![Value::unit()];
    for x in 0..2u8 {
        vals.push(Value::u1(x));
    }
    for x in 0..4u8 {
        vals.push(Value::u2(x));
    }
    for x in 0..16u8 {
        vals.push(Value::u4(x));
    }
    for x in [0u8, 1, 0x12, 0x21, 0x7f, 0x80, 0xa5, 0xff] {
        vals.push(Value::u8(x));
    }
    for x in [0u16, 0x1234, 0x3412, 0xabcd, 0xffff] {
        vals.push(Value::u16(x));
    }
    // sums with padding, products of unequal parts
    let two = Final::two_two_n(0).unwrap();
    let four = Final::two_two_n(1).unwrap();
    let byte = Final::two_two_n(3).unwrap();
    let base: Vec<Value> = vals.clone();
    for v in base.iter().take(30) {
        vals.push(Value::left(v.clone(), Arc::clone(&byte)));
        vals.push(Value::right(Arc::clone(&byte), v.clone()));
        vals.push(Value::left(v.clone(), Arc::clone(&two)));
        vals.push(Value::right(Arc::clone(&four), v.clone()));
        for w in base.iter().take(12) {
            vals.push(Value::product(v.clone(), w.clone()));
        }
    }
    // every value again, decoded from its own padded and compact bits, and all sub-values (shared buffers)
    let built: Vec<Value> = vals.clone();
    for v in &built {
        let ty = Arc::new(v.ty().clone());
        let padded: Vec<bool> = v.iter_padded().collect();
        let mut it = BitIter::from(crate::bit_encoding::BitCollector::collect_bits(padded.iter().copied()).0.into_iter());
        if let Ok(d) = Value::from_padded_bits(&mut it, &ty) {
            vals.push(d);
        }
        let compact: Vec<bool> = v.iter_compact().collect();
        let mut it = BitIter::from(crate::bit_encoding::BitCollector::collect_bits(compact.iter().copied()).0.into_iter());
        if let Ok(d) = Value::from_compact_bits(&mut it, &ty) {
            vals.push(d);
        }
        subvalues(v, &mut vals, 3);
    }
    let mut fails: Vec<String> = Vec::new();
    // C10: parts obtained by sub-value extraction (shared buffers, arbitrary bit offsets, foreign bits around them) are as
    // good as any other parts: a product / sum built from them yields them back
    let extracted: Vec<Value> = vals[built.len()..].iter().filter(|v| v.ty().bit_width() > 0).take(400).cloned().collect();
    let partners = [Value::u1(0), Value::u2(0), Value::u2(3), Value::u4(0), Value::u4(0xf), Value::u8(0), Value::u8(0xff)];
    for sv in &extracted {
        for w in &partners {
            for (l, r) in [(sv, w), (w, sv)] {
                let p = Value::product(l.clone(), r.clone());
                match p.as_product() {
                    Some((x, y)) if &x.to_value() == l && &y.to_value() == r => {}
                    Some((x, y)) => fails.push(format!("product({} : {}, {} : {}) has parts ({}, {})", l, l.ty(), r, r.ty(), x.to_value(), y.to_value())),
                    None => fails.push(format!("product({}, {}) is not a product", l, r)),
                }
            }
        }
        if fails.len() >= 8 {
            break;
        }
    }
    // C10: a sum / product built from KNOWN word parts gives exactly those parts back (the parts are words, so comparing
    // them does not go through the accessor under test)
    {
        let words = [Value::u1(1), Value::u2(2), Value::u4(0xb), Value::u8(0xab), Value::u16(0xabcd), Value::u32(0xdead_beef)];
        let tys: Vec<Arc<Final>> = (0..6).map(|n| Final::two_two_n(n).unwrap()).collect();
        for a in &words {
            for t in &tys {
                let l = Value::left(a.clone(), Arc::clone(t));
                match l.as_left() {
                    Some(x) if &x.to_value() == a && l.as_right().is_none() => {}
                    other => fails.push(format!("left({}, {}).as_left() gives {:?}", a, t, other.map(|x| x.to_value().to_string()))),
                }
                let r = Value::right(Arc::clone(t), a.clone());
                match r.as_right() {
                    Some(x) if &x.to_value() == a && r.as_left().is_none() => {}
                    other => fails.push(format!("right({}, {}).as_right() gives {:?}", t, a, other.map(|x| x.to_value().to_string()))),
                }
                // the padded encoding is tag, padding, payload; the compact one is tag, payload
                let pad = l.ty().bit_width() - 1 - a.ty().bit_width();
                let mut want: Vec<bool> = vec![false];
                want.extend(std::iter::repeat(false).take(pad));
                want.extend(a.iter_padded());
                if l.iter_padded().collect::<Vec<bool>>() != want {
                    fails.push(format!("left({}, {}): padded bits are not tag, {} padding bits, payload", a, t, pad));
                }
                let mut wantc: Vec<bool> = vec![false];
                wantc.extend(a.iter_padded());
                if l.iter_compact().collect::<Vec<bool>>() != wantc {
                    fails.push(format!("left({}, {}): compact bits are not tag, payload", a, t));
                }
            }
            for b in &words {
                let p = Value::product(a.clone(), b.clone());
                match p.as_product() {
                    Some((x, y)) if &x.to_value() == a && &y.to_value() == b => {}
                    _ => fails.push(format!("product({}, {}) does not give its parts back", a, b)),
                }
            }
        }
    }
    // C10: constructors / accessors are inverse, both encodings decode back to the value and have the advertised lengths,
    // pruning to the value's own type is the identity, pruning twice equals pruning once
    for v in vals.iter().take(1500) {
        let ty = Arc::new(v.ty().clone());
        let padded: Vec<bool> = v.iter_padded().collect();
        if padded.len() != ty.bit_width() {
            fails.push(format!("{} : {} has {} padded bits, the type is {} bits wide", v, ty, padded.len(), ty.bit_width()));
        }
        let mut it = BitIter::from(crate::bit_encoding::BitCollector::collect_bits(padded.iter().copied()).0.into_iter());
        match Value::from_padded_bits(&mut it, &ty) {
            Ok(d) if &d == v && d.ty() == v.ty() && it.n_total_read() == padded.len() => {}
            other => fails.push(format!("{} : {} decoded from its own padded bits gives {:?} after {} bits", v, ty, other.map(|x| x.to_string()).ok(), it.n_total_read())),
        }
        let compact: Vec<bool> = v.iter_compact().collect();
        let mut it = BitIter::from(crate::bit_encoding::BitCollector::collect_bits(compact.iter().copied()).0.into_iter());
        match Value::from_compact_bits(&mut it, &ty) {
            Ok(d) if &d == v && d.ty() == v.ty() && it.n_total_read() == compact.len() => {}
            other => fails.push(format!("{} : {} decoded from its own compact bits gives {:?} after {} bits", v, ty, other.map(|x| x.to_string()).ok(), it.n_total_read())),
        }
        match v.prune(&ty) {
            Some(p) if &p == v => {}
            other => fails.push(format!("{} : {} pruned to its own type gives {:?}", v, ty, other.map(|x| x.to_string()))),
        }
        if let Some((a, b)) = v.as_product() {
            let (a, b) = (a.to_value(), b.to_value());
            let back = Value::product(a.clone(), b.clone());
            if &back != v || back.ty() != v.ty() {
                fails.push(format!("product of the parts of {} gives {}", v, back));
            }
            match back.as_product() {
                Some((x, y)) if x.to_value() == a && y.to_value() == b => {}
                _ => fails.push(format!("the parts of product({}, {}) are not ({}, {})", a, b, a, b)),
            }
            // prune the left part to unit: the right part must survive unchanged
            if let Some((_, rt)) = ty.as_product() {
                let target = Final::product(Final::unit(), Arc::clone(rt));
                match v.prune(&target) {
                    Some(p) => match p.as_product() {
                        Some((_, y)) if y.to_value() == b => {
                            if p.prune(&target).as_ref() != Some(&p) {
                                fails.push(format!("pruning {} to {} twice differs from pruning once", v, target));
                            }
                        }
                        _ => fails.push(format!("{} pruned to {} lost its right part {}", v, target, b)),
                    },
                    None => fails.push(format!("{} cannot be pruned to {}", v, target)),
                }
            }
        }
        if let Some(l) = v.as_left() {
            if let Some((_, rt)) = ty.as_sum() {
                let back = Value::left(l.to_value(), Arc::clone(rt));
                if &back != v {
                    fails.push(format!("left of the content of {} gives {}", v, back));
                }
            }
        }
        if let Some(r) = v.as_right() {
            if let Some((lt, _)) = ty.as_sum() {
                let back = Value::right(Arc::clone(lt), r.to_value());
                if &back != v {
                    fails.push(format!("right of the content of {} gives {}", v, back));
                }
            }
        }
        if fails.len() >= 8 {
            break;
        }
    }
    'outer: for a in &vals {
        for b in &vals {
            let same = a.ty() == b.ty() && bits(a) == bits(b);
            if (a == b) != same {
                fails.push(format!("{} == {} is {}, but same type and compact bits: {}", a, b, a == b, same));
            }
            let c = a.cmp(b);
            if (c == Ordering::Equal) != same {
                fails.push(format!("cmp({} : {}, {} : {}) = {:?}, but same type and compact bits: {}", a, a.ty(), b, b.ty(), c, same));
            }
            if c != b.cmp(a).reverse() {
                fails.push(format!("cmp({}, {}) = {:?} but cmp the other way round = {:?}", a, b, c, b.cmp(a)));
            }
            // the comparison operators go through partial_cmp: it is the total order, never None
            if a.partial_cmp(b) != Some(c) {
                fails.push(format!("partial_cmp({} : {}, {} : {}) = {:?} but cmp = {:?}", a, a.ty(), b, b.ty(), a.partial_cmp(b), c));
            }
            if (a < b) != (c == Ordering::Less) || (a > b) != (c == Ordering::Greater) || (a <= b) != (c != Ordering::Greater) || (a >= b) != (c != Ordering::Less) {
                fails.push(format!("the operators < > <= >= on {} : {} and {} : {} disagree with cmp = {:?}", a, a.ty(), b, b.ty(), c));
            }
            if same && hash_of(a) != hash_of(b) {
                fails.push(format!("{} and {} are the same element but hash differently", a, b));
            }
            if fails.len() >= 8 {
                break 'outer;
            }
        }
    }
    // words take their comparison traits from the value they wrap
    let words: Vec<(crate::Word, &Value)> = vals.iter().filter_map(|v| v.to_word().map(|w| (w, v))).collect();
    'wouter: for (wa, a) in &words {
        for (wb, b) in &words {
            if (wa == wb) != (a == b) || wa.cmp(wb) != a.cmp(b) || wa.partial_cmp(wb) != Some(a.cmp(b)) {
                fails.push(format!("words of {} : {} and {} : {}: == {}, cmp {:?}, partial_cmp {:?}; values: == {}, cmp {:?}",
                    a, a.ty(), b, b.ty(), wa == wb, wa.cmp(wb), wa.partial_cmp(wb), a == b, a.cmp(b)));
            }
            if fails.len() >= 8 {
                break 'wouter;
            }
        }
    }
    for f in &fails {
        println!("CEX: {}", f);
    }
    assert!(fails.is_empty(), "{} failing pair(s) among {} values", fails.len(), vals.len());
}
