// Native bounded stand-in / replay oracle for C11 (and the accessor clauses of C10), attached as `#[cfg(test)] mod` to a
// verbatim copy of the working tree. It runs only when a verifier has reported a failed obligation of unit `value`, or
// when part of that unit could not be given to the verifier. It builds small values in every way the library offers -
// constructors, decoding from padded and from compact bits, sub-value extraction from shared buffers - and checks that
// equality, ordering and hashing are functions of (type, compact bit string) and agree with each other.
use crate::types::Final;
use crate::{BitIter, Value};
use std::cmp::Ordering;
use std::collections::hash_map::DefaultHasher;
use std::hash::{Hash, Hasher};
use std::sync::Arc;

fn hash_of(v: &Value) -> u64 {
    let mut h = DefaultHasher::new();
    v.hash(&mut h);
    h.finish()
}

fn bits(v: &Value) -> Vec<bool> {
    v.iter_compact().collect()
}

fn subvalues(v: &Value, out: &mut Vec<Value>, depth: usize) {
    if depth == 0 {
        return;
    }
    if let Some((a, b)) = v.as_product() {
        let (a, b) = (a.to_value(), b.to_value());
        subvalues(&a, out, depth - 1);
        subvalues(&b, out, depth - 1);
        out.push(a);
        out.push(b);
    }
    if let Some(l) = v.as_left() {
        let l = l.to_value();
        subvalues(&l, out, depth - 1);
        out.push(l);
    }
    if let Some(r) = v.as_right() {
        let r = r.to_value();
        subvalues(&r, out, depth - 1);
        out.push(r);
    }
}

#[test]
fn c11_value_order_replay() {
    let mut vals: Vec<Value> = vec![Value::unit()];
    for x in 0..2u8 {
        vals.push(Value::u1(x));
    }
    for x in 0..4u8 {
        vals.push(Value::u2(x));
    }
    for x in 0..16u8 {
        vals.push(Value::u4(x));
    }
    for x in [0u8, 1, 0x12, 0x21, 0x7f, 0x80, 0xa5, 0xff] {
        vals.push(Value::u8(x));
    }
    for x in [0u16, 0x1234, 0x3412, 0xabcd, 0xffff] {
        vals.push(Value::u16(x));
    }
    // sums with padding, products of unequal parts
    let two = Final::two_two_n(0).unwrap();
    let four = Final::two_two_n(1).unwrap();
    let byte = Final::two_two_n(3).unwrap();
    let base: Vec<Value> = vals.clone();
    for v in base.iter().take(30) {
        vals.push(Value::left(v.clone(), Arc::clone(&byte)));
        vals.push(Value::right(Arc::clone(&byte), v.clone()));
        vals.push(Value::left(v.clone(), Arc::clone(&two)));
        vals.push(Value::right(Arc::clone(&four), v.clone()));
        for w in base.iter().take(12) {
            vals.push(Value::product(v.clone(), w.clone()));
        }
    }
    // every value again, decoded from its own padded and compact bits, and all sub-values (shared buffers)
    let built: Vec<Value> = vals.clone();
    for v in &built {
        let ty = Arc::new(v.ty().clone());
        let padded: Vec<bool> = v.iter_padded().collect();
        let mut it = BitIter::from(crate::bit_encoding::BitCollector::collect_bits(padded.iter().copied()).0.into_iter());
        if let Ok(d) = Value::from_padded_bits(&mut it, &ty) {
            vals.push(d);
        }
        let compact: Vec<bool> = v.iter_compact().collect();
        let mut it = BitIter::from(crate::bit_encoding::BitCollector::collect_bits(compact.iter().copied()).0.into_iter());
        if let Ok(d) = Value::from_compact_bits(&mut it, &ty) {
            vals.push(d);
        }
        subvalues(v, &mut vals, 3);
    }
    let mut fails: Vec<String> = Vec::new();
    'outer: for a in &vals {
        for b in &vals {
            let same = a.ty() == b.ty() && bits(a) == bits(b);
            if (a == b) != same {
                fails.push(format!("{} == {} is {}, but same type and compact bits: {}", a, b, a == b, same));
            }
            let c = a.cmp(b);
            if (c == Ordering::Equal) != same {
                fails.push(format!("cmp({} : {}, {} : {}) = {:?}, but same type and compact bits: {}", a, a.ty(), b, b.ty(), c, same));
            }
            if c != b.cmp(a).reverse() {
                fails.push(format!("cmp({}, {}) = {:?} but cmp the other way round = {:?}", a, b, c, b.cmp(a)));
            }
            if same && hash_of(a) != hash_of(b) {
                fails.push(format!("{} and {} are the same element but hash differently", a, b));
            }
            if fails.len() >= 8 {
                break 'outer;
            }
        }
    }
    for f in &fails {
        println!("CEX: {}", f);
    }
    assert!(fails.is_empty(), "{} failing pair(s) among {} values", fails.len(), vals.len());
}
