// Native replay oracle for C16's canonical-sorting clause (attached as `#[cfg(test)] mod` to a verbatim copy of the
// working tree). NOT the deciding step: it runs only after Verus has reported a failed obligation of unit `policy`, to
// turn that report into a concrete failing policy on the real code (or to say that none was found).
use crate::policy::Policy;
use elements::bitcoin::key::XOnlyPublicKey;
use std::sync::Arc;

type P = Policy<XOnlyPublicKey>;

fn canonical(p: &P) -> bool {
    match p {
        // the library keeps the GREATER child on the left of and/or nodes (`if right > left { swap }`), thresholds ascending
        Policy::And { left, right } | Policy::Or { left, right } => right <= left && canonical(left) && canonical(right),
        Policy::Threshold(_, subs) => subs.windows(2).all(|w| w[0] <= w[1]) && subs.iter().all(canonical),
        _ => true,
    }
}

/// all policies of nesting depth <= d over the leaves After(1..=3)
fn gen(d: usize) -> Vec<P> {
    let mut out: Vec<P> = (1..=3).map(Policy::After).collect();
    if d == 0 {
        return out;
    }
    let sub = gen(d - 1);
    // keep the enumeration small: binary nodes over all pairs, thresholds over all pairs and a few triples
    for a in &sub {
        for b in &sub {
            out.push(Policy::And { left: Arc::new(a.clone()), right: Arc::new(b.clone()) });
            out.push(Policy::Or { left: Arc::new(a.clone()), right: Arc::new(b.clone()) });
            out.push(Policy::Threshold(1, vec![a.clone(), b.clone()]));
        }
    }
    // both children the SAME allocation (Arc identity is observable through Arc::ptr_eq / Arc::make_mut)
    for a in &sub {
        let shared = Arc::new(a.clone());
        out.push(Policy::And { left: Arc::clone(&shared), right: Arc::clone(&shared) });
        out.push(Policy::Or { left: Arc::clone(&shared), right: shared });
    }
    // single-child thresholds (a legal policy: k <= n, n >= 1) over every sub-policy
    for a in &sub {
        out.push(Policy::Threshold(1, vec![a.clone()]));
    }
    for a in sub.iter().take(12) {
        for b in sub.iter().take(12) {
            for c in sub.iter().take(12) {
                out.push(Policy::Threshold(2, vec![a.clone(), b.clone(), c.clone()]));
            }
        }
    }
    out
}

/// the same policy with the children of every and / or node exchanged and the children of every threshold reversed
fn mirrored(p: &P) -> P {
    match p {
        Policy::And { left, right } => Policy::And { left: Arc::new(mirrored(right)), right: Arc::new(mirrored(left)) },
        Policy::Or { left, right } => Policy::Or { left: Arc::new(mirrored(right)), right: Arc::new(mirrored(left)) },
        Policy::Threshold(k, subs) => Policy::Threshold(*k, subs.iter().rev().map(mirrored).collect()),
        other => other.clone(),
    }
}

#[test]
fn c16_policy_sort_replay() {
    let mut fails = 0;
    for p in gen(2) {
        let once = p.clone().sorted();
        let twice = once.clone().sorted();
        if !canonical(&once) {
            println!("CEX: sorted() of {:?} is {:?}, which is not in canonical order at every depth", p, once);
            fails += 1;
        } else if once != twice {
            println!("CEX: sorted() is not idempotent on {:?}: once = {:?}, twice = {:?}", p, once, twice);
            fails += 1;
        } else if canonical(&p) && once != p {
            println!("CEX: canonical policy {:?} is changed by sorted() into {:?}", p, once);
            fails += 1;
        } else if mirrored(&p).sorted() != once {
            println!("CEX: {:?} sorts to {:?} but the same policy with its children reordered, {:?}, sorts to {:?}", p, once, mirrored(&p), mirrored(&p).sorted());
            fails += 1;
        }
        if fails >= 5 {
            break;
        }
    }
    assert!(fails == 0, "{} failing policies", fails);
}
