// Native bounded stand-in for the interpreter clauses of C05 / C07 (attached as `#[cfg(test)] mod` to a verbatim copy of
// the working tree; built WITH debug assertions so that the machine's own bound checks fire). The interpreter loop
// `exec_with_tracker` is not under contract; this enumeration is its labelled bounded check (thorough tier) and the
// fallback when unit `machine` / `bounds` is undecided. For every well-typed jet-free program it builds (every combinator
// over witness / word / iden / unit leaves, depth <= 3, several input values each) it checks:
//   C05  the Bit Machine's output equals the denotational semantics, computed here by a direct recursive evaluator;
//   C07  a machine sized by for_program from the static bounds runs the program without touching memory or frames
//        beyond it (the machine's debug assertions and slice indexing would panic) and the static bounds are not below
//        the obvious lower bound (the largest intermediate type of a comp).
use crate::jet::{Core, CoreEnv};
use crate::node::{ConstructNode, CoreConstructible, DisconnectConstructible, Inner, RedeemNode, WitnessConstructible};
use crate::types::{self, Final};
use crate::{BitMachine, Cmr, FailEntropy, Value, Word};
use std::sync::Arc;

type N<'b> = Arc<ConstructNode<'b>>;

/// what the big-step semantics assign to a program on an input
enum Outcome {
    Val(Value),
    /// the semantics FAIL: an assertion reaches its hidden side, or a fail node is reached
    Fails,
    /// outside the fragment this evaluator implements (the execution is skipped)
    Unsupported,
}
use Outcome::{Fails, Unsupported, Val};

macro_rules! ev {
    ($e:expr) => {
        match $e {
            Val(v) => v,
            other => return other,
        }
    };
}
macro_rules! opt {
    ($e:expr) => {
        match $e {
            Some(v) => v,
            None => return Unsupported,
        }
    };
}

/// denotational semantics of the core combinators on values
fn eval(node: &RedeemNode, input: &Value) -> Outcome {
    let ar = node.arrow();
    Val(match node.inner() {
        Inner::Iden => input.clone(),
        Inner::Unit => Value::unit(),
        Inner::InjL(t) => Value::left(ev!(eval(t, input)), Arc::clone(opt!(ar.target.as_sum()).1)),
        Inner::InjR(t) => Value::right(Arc::clone(opt!(ar.target.as_sum()).0), ev!(eval(t, input))),
        Inner::Take(t) => ev!(eval(t, &opt!(input.as_product()).0.to_value())),
        Inner::Drop(t) => ev!(eval(t, &opt!(input.as_product()).1.to_value())),
        Inner::Comp(s, t) => ev!(eval(t, &ev!(eval(s, input)))),
        Inner::Pair(s, t) => Value::product(ev!(eval(s, input)), ev!(eval(t, input))),
        Inner::Case(s, t) => {
            let (sum, c) = opt!(input.as_product());
            if let Some(a) = sum.as_left() {
                ev!(eval(s, &Value::product(a.to_value(), c.to_value())))
            } else {
                ev!(eval(t, &Value::product(opt!(sum.as_right()).to_value(), c.to_value())))
            }
        }
        // an assertion: the visible branch runs, the hidden side fails
        Inner::AssertL(s, _) => {
            let (sum, c) = opt!(input.as_product());
            match sum.as_left() {
                Some(a) => ev!(eval(s, &Value::product(a.to_value(), c.to_value()))),
                None => return Fails,
            }
        }
        Inner::AssertR(_, t) => {
            let (sum, c) = opt!(input.as_product());
            match sum.as_right() {
                Some(b) => ev!(eval(t, &Value::product(b.to_value(), c.to_value()))),
                None => return Fails,
            }
        }
        Inner::Fail(_) => return Fails,
        // disconnect s t : A -> B x D  with  s : 2^256 x A -> B x C,  t : C -> D: s receives the commitment root of t
        Inner::Disconnect(s, t) => {
            let root = Value::u256(t.cmr().to_byte_array());
            let bc = ev!(eval(s, &Value::product(root, input.clone())));
            let (b, c) = opt!(bc.as_product());
            Value::product(b.to_value(), ev!(eval(t, &c.to_value())))
        }
        Inner::Witness(v) => v.clone(),
        Inner::Jet(j) if format!("{}", j) == "eq_8" => {
            let (a, b) = opt!(input.as_product());
            Value::u1((a.to_value() == b.to_value()) as u8)
        }
        Inner::Word(w) => w.as_value().clone(),
        _ => return Unsupported,
    })
}

/// a few values of a type: all-zero, all-one-ish, and mixed sums
fn values(ty: &Final, out: &mut Vec<Value>, budget: usize) {
    if let Some((a, b)) = ty.as_sum() {
        let (mut va, mut vb) = (Vec::new(), Vec::new());
        values(a, &mut va, budget.min(2));
        values(b, &mut vb, budget.min(2));
        for x in va {
            out.push(Value::left(x, Arc::clone(b)));
        }
        for y in vb {
            out.push(Value::right(Arc::clone(a), y));
        }
    } else if let Some((a, b)) = ty.as_product() {
        let (mut va, mut vb) = (Vec::new(), Vec::new());
        values(a, &mut va, budget.min(3));
        values(b, &mut vb, budget.min(3));
        for (i, x) in va.iter().enumerate() {
            for (j, y) in vb.iter().enumerate() {
                if i == j || i + 1 == j || j == 0 {
                    out.push(Value::product(x.clone(), y.clone()));
                }
            }
        }
    } else {
        out.push(Value::unit());
    }
    out.truncate(budget.max(1));
}

/// `comp (pair witness unit) (case (take (comp (pair iden iden) eq_8)) (take eq_8)) : 1 -> 2`
fn witcase<'b>(ctx: &types::Context<'b>, v: Value) -> N<'b> {
    let eq8 = || N::jet(ctx, &Core::Eq8);
    let l = N::take(&N::comp(&N::pair(&N::iden(ctx), &N::iden(ctx)).unwrap(), &eq8()).unwrap());
    let r = N::take(&eq8());
    let cs = N::case(&l, &r).unwrap();
    N::comp(&N::pair(&N::witness(ctx, Some(v)), &N::unit(ctx)).unwrap(), &cs).unwrap()
}

/// expressions by construction depth; leaves include words of every small width and witnesses of an unbalanced sum type
fn programs<'b>(ctx: &types::Context<'b>, depth: usize) -> Vec<(String, N<'b>)> {
    let mut out: Vec<(String, N)> = vec![
        ("iden".into(), N::iden(ctx)),
        ("unit".into(), N::unit(ctx)),
        ("word 0xa5".into(), N::const_word(ctx, Word::u8(0xa5))),
        ("word 0b10".into(), N::const_word(ctx, Word::u2(2))),
        ("bit 1".into(), N::const_word(ctx, Word::u1(1))),
        ("word 0xb".into(), N::const_word(ctx, Word::u4(0xb))),
        // a witness of the unbalanced sum type 2^8 + 2^16 (the type is forced by the eq_8 jets), compared with itself
        ("witcase L(0xa5)".into(), witcase(ctx, Value::left(Value::u8(0xa5), Final::two_two_n(4).unwrap()))),
        ("witcase L(0x00)".into(), witcase(ctx, Value::left(Value::u8(0), Final::two_two_n(4).unwrap()))),
        ("witcase R(0xa5a5)".into(), witcase(ctx, Value::right(Final::two_two_n(3).unwrap(), Value::u16(0xa5a5)))),
        ("witcase R(0x12a5)".into(), witcase(ctx, Value::right(Final::two_two_n(3).unwrap(), Value::u16(0x12a5)))),
    ];
    if depth == 0 {
        return out;
    }
    let sub = programs(ctx, depth - 1);
    let deep = std::env::var("VERIF_NATIVE_DEEP").is_ok(); // thorough tier: larger samples
    let n_un = if depth == 1 { sub.len() } else if deep { 30 } else { 14 };
    for (n, e) in sub.iter().take(n_un) {
        out.push((format!("injl ({})", n), N::injl(e)));
        out.push((format!("injr ({})", n), N::injr(e)));
        out.push((format!("take ({})", n), N::take(e)));
        out.push((format!("drop ({})", n), N::drop_(e)));
    }
    let n_bin = if depth == 1 { sub.len() } else if deep { 20 } else { 12 };
    for (n, e) in sub.iter().take(n_bin) {
        for (m, f) in sub.iter().take(n_bin) {
            if let Ok(x) = N::pair(e, f) {
                out.push((format!("pair ({}) ({})", n, m), x));
            }
        }
    }
    // compositions inside expressions (intermediate frames that are allocated, dropped and reused)
    for (n, e) in sub.iter().take(8) {
        for (m, f) in sub.iter().take(8) {
            if let Ok(x) = N::comp(e, f) {
                out.push((format!("comp ({}) ({})", n, m), x));
            }
        }
    }
    // nested compositions (frames over zero-width intermediate types count as frames but not as cells)
    if depth >= 2 {
        let unit = N::unit(ctx);
        for (n, e) in sub.iter().filter(|(n, _)| n.starts_with("comp")).take(10) {
            if let Ok(x) = N::comp(e, &unit) {
                if let Ok(y) = N::comp(&x, &unit) {
                    out.push((format!("comp (comp ({}) unit) unit", n), y.clone()));
                    if let Ok(z) = N::pair(&unit, &y) {
                        out.push((format!("pair unit (comp (comp ({}) unit) unit)", n), z));
                    }
                    if let Ok(z) = N::pair(&y, &unit) {
                        out.push((format!("pair (comp (comp ({}) unit) unit) unit", n), z));
                    }
                }
            }
        }
    }
    // the sum eliminators: case over (iden-projections) of the two branches
    for (n, e) in sub.iter().take(6) {
        for (m, f) in sub.iter().take(6) {
            if let Ok(x) = N::case(&N::take(e), &N::take(f)) {
                out.push((format!("case (take ({})) (take ({}))", n, m), x));
            }
            if let Ok(x) = N::case(&N::drop_(e), &N::drop_(f)) {
                out.push((format!("case (drop ({})) (drop ({}))", n, m), x));
            }
        }
    }
    if let Ok(x) = N::case(&N::injl(&N::unit(ctx)), &N::injr(&N::unit(ctx))) {
        out.push(("case (injl unit) (injr unit)".into(), x));
    }
    out
}

#[test]
fn c05_machine_semantics_replay() {
    let mut fails: Vec<String> = Vec::new();
    let mut tested = 0usize;
    let mut n_fail_expected = 0usize;
    let mut n_disconnect = 0usize;
    let mut n_fixed = 0usize;
    // every program is built in its own inference context: (builder index) -> program
    let n_leaf = types::Context::with_context(|ctx| programs(&ctx, 2).len());
    let mut shapes: Vec<(usize, usize, usize)> = Vec::new(); // (kind, i, j)
    for i in 0..n_leaf {
        shapes.push((0, i, 0));
        if i % 3 == 0 {
            shapes.push((3, i, 0)); // drop / take the program: moves it to an unaligned offset of a larger input
        }
    }
    let deep = std::env::var("VERIF_NATIVE_DEEP").is_ok();
    for i in (0..n_leaf).step_by(if deep { 2 } else { 5 }) {
        for j in (0..n_leaf).step_by(if deep { 3 } else { 7 }) {
            shapes.push((1, i, j)); // comp
        }
    }
    for i in 0..n_leaf.min(30) {
        for j in 0..n_leaf.min(12) {
            shapes.push((2, i, j)); // case over a word-selected sum
        }
    }
    // disconnect (three shapes of the left branch), assertions with the visible / the hidden side selected, fail nodes
    for i in 0..n_leaf.min(24) {
        for j in 0..n_leaf.min(10) {
            shapes.push((4, i, j));
        }
    }
    for i in 0..n_leaf.min(16) {
        for j in 0..8 {
            shapes.push((5, i, j));
        }
    }
    // frame reuse: two compositions side by side - the second one's intermediate frame reuses the cells of the first
    for i in 0..n_leaf.min(48) {
        for j in 0..n_leaf.min(48) {
            if (i + j) % 2 == 0 || i < 12 || j < 12 {
                shapes.push((6, i, j));
            }
        }
    }
    // the same side-by-side compositions fed with two concrete words, so that the cursors move by non-zero widths
    // (polymorphic programs finalize their free types to unit, where a misplaced cursor cannot be seen)
    for i in 0..24 {
        for j in 0..8 {
            shapes.push((7, i, j));
        }
    }
    for (kind, i, j) in shapes {
        types::Context::with_context(|ctx| {
            let ps = programs(&ctx, 2);
            let (name, prog): (String, N) = match kind {
                0 => ps[i].clone(),
                3 => match N::comp(&N::pair(&N::const_word(&ctx, Word::u1(1)), &N::iden(&ctx)).ok().unwrap_or_else(|| N::unit(&ctx)), &N::drop_(&ps[i].1)) {
                    // run the program on the second component of (1, input): every read happens one bit further in
                    Ok(c) => (format!("comp (pair (bit 1) iden) (drop ({}))", ps[i].0), c),
                    Err(_) => return,
                },
                1 => match N::comp(&ps[i].1, &ps[j].1) {
                    Ok(c) => (format!("comp ({}) ({})", ps[i].0, ps[j].0), c),
                    Err(_) => return,
                },
                6 => match N::pair(
                    &match N::comp(&ps[i].1, &N::iden(&ctx)) {
                        Ok(c) => c,
                        Err(_) => return,
                    },
                    &match N::comp(&ps[j].1, &N::iden(&ctx)) {
                        Ok(c) => c,
                        Err(_) => return,
                    },
                ) {
                    Ok(c) => (format!("pair (comp ({}) iden) (comp ({}) iden)", ps[i].0, ps[j].0), c),
                    Err(_) => return,
                },
                7 => {
                    // projections built from FRESH leaves (the entries of `ps` share their leaves, hence type variables)
                    let proj = |k: usize| -> Option<(String, N)> {
                        let id = || N::iden(&ctx);
                        Some(match k % 8 {
                            0 => ("take iden".to_string(), N::take(&id())),
                            1 => ("drop iden".to_string(), N::drop_(&id())),
                            2 => ("iden".to_string(), id()),
                            3 => ("unit".to_string(), N::unit(&ctx)),
                            4 => ("injl (take iden)".to_string(), N::injl(&N::take(&id()))),
                            5 => ("pair (drop iden) (take iden)".to_string(), N::pair(&N::drop_(&id()), &N::take(&id())).ok()?),
                            6 => ("comp (drop iden) iden".to_string(), N::comp(&N::drop_(&id()), &id()).ok()?),
                            _ => ("injr (drop iden)".to_string(), N::injr(&N::drop_(&id()))),
                        })
                    };
                    let (na, a) = match proj(i) { Some(x) => x, None => return };
                    let (nb, b) = match proj(j) { Some(x) => x, None => return };
                    let (desc, side) = match (i / 8) % 3 {
                        0 => (format!("pair (comp ({}) iden) ({})", na, nb), N::comp(&a, &N::iden(&ctx)).and_then(|x| N::pair(&x, &b))),
                        1 => (format!("pair ({}) (comp ({}) iden)", na, nb), N::comp(&b, &N::iden(&ctx)).and_then(|x| N::pair(&a, &x))),
                        _ => (format!("pair (comp ({}) iden) (comp ({}) iden)", na, nb), N::comp(&a, &N::iden(&ctx)).and_then(|x| N::comp(&b, &N::iden(&ctx)).and_then(|y| N::pair(&x, &y)))),
                    };
                    let side = match side {
                        Ok(c) => c,
                        Err(_) => return,
                    };
                    let words = match N::pair(&N::const_word(&ctx, Word::u8(0xa5)), &N::const_word(&ctx, Word::u4(0x3))) {
                        Ok(c) => c,
                        Err(_) => return,
                    };
                    match N::comp(&words, &side) {
                        Ok(c) => (format!("comp (pair (word 0xa5) (word 0x3)) ({})", desc), c),
                        Err(_) => return,
                    }
                }
                4 => {
                    // disconnect s t, with s one of: pair unit (drop iden) [C = A], pair (take iden) (drop iden) [B = the root],
                    // pair (drop x) (take iden) [C = 2^256]; t = ps[i]
                    let t = &ps[i];
                    let s_ = match j % 3 {
                        0 => N::pair(&N::unit(&ctx), &N::drop_(&N::iden(&ctx))),
                        1 => N::pair(&N::take(&N::iden(&ctx)), &N::drop_(&N::iden(&ctx))),
                        _ => N::pair(&N::drop_(&ps[j].1), &N::take(&N::iden(&ctx))),
                    };
                    let s_ = match s_ {
                        Ok(x) => x,
                        Err(_) => return,
                    };
                    match N::disconnect(&s_, &Some(Arc::clone(&t.1))) {
                        Ok(d) => (format!("disconnect (shape {} of {}) ({})", j % 3, ps[j].0, t.0), d),
                        Err(_) => return,
                    }
                }
                5 => {
                    // comp (pair sel unit) A  with A an assertion or a case against a fail node; sel picks the visible or the hidden side
                    let x = &ps[i];
                    let left_selected = j % 2 == 0;
                    let sel = if left_selected { N::injl(&N::const_word(&ctx, Word::u8(0x3c))) } else { N::injr(&N::const_word(&ctx, Word::u2(1))) };
                    let input = match N::pair(&sel, &N::unit(&ctx)) {
                        Ok(p) => p,
                        Err(_) => return,
                    };
                    let hidden: Cmr = ps[(i + 1) % ps.len()].1.cmr();
                    let mut entropy = [0u8; 64];
                    entropy[0] = i as u8;
                    entropy[63] = j as u8;
                    let (what, a) = match j / 2 {
                        0 => ("assertl (take x) #", N::assertl(&N::take(&x.1), hidden)),
                        1 => ("assertr # (take x)", N::assertr(hidden, &N::take(&x.1))),
                        2 => ("case (take x) fail", N::case(&N::take(&x.1), &N::fail(&ctx, FailEntropy::from_byte_array(entropy)))),
                        _ => ("case fail (take x)", N::case(&N::fail(&ctx, FailEntropy::from_byte_array(entropy)), &N::take(&x.1))),
                    };
                    let a = match a {
                        Ok(a) => a,
                        Err(_) => return,
                    };
                    match N::comp(&input, &a) {
                        Ok(c) => (format!("comp (pair ({}) unit) ({}) with x = {}", if left_selected { "injl 0x3c" } else { "injr 0b01" }, what, x.0), c),
                        Err(_) => return,
                    }
                }
                _ => {
                    // comp (pair (injl/injr src) unit) (case (take x) (take y)) with x = ps[i] and y = ps[j]
                    let sel = if (i + j) % 2 == 0 { N::injl(&N::const_word(&ctx, Word::u8(0x3c))) } else { N::injr(&N::const_word(&ctx, Word::u2(1))) };
                    let input = match N::pair(&sel, &N::unit(&ctx)) {
                        Ok(p) => p,
                        Err(_) => return,
                    };
                    let cs = match N::case(&N::take(&ps[i].1), &N::take(&ps[j].1)) {
                        Ok(c) => c,
                        Err(_) => return,
                    };
                    match N::comp(&input, &cs) {
                        Ok(c) => (format!("comp (pair sel unit) (case (take ({})) (take ({})))", ps[i].0, ps[j].0), c),
                        Err(_) => return,
                    }
                }
            };
            let redeem = match prog.finalize_unpruned() {
                Ok(r) => r,
                Err(_) => return,
            };
            if redeem.arrow().source.bit_width() > 64 || redeem.arrow().target.bit_width() > 600 {
                return;
            }
            let mut inputs = Vec::new();
            values(&redeem.arrow().source, &mut inputs, 6);
            for input in inputs {
                let expect = match eval(&redeem, &input) {
                    Unsupported => continue,
                    other => other,
                };
                tested += 1;
                if name.starts_with("disconnect") {
                    n_disconnect += 1;
                }
                if name.starts_with("comp (pair (word 0xa5)") {
                    n_fixed += 1;
                }
                if matches!(expect, Fails) {
                    n_fail_expected += 1;
                }
                let (r2, i2) = (Arc::clone(&redeem), input.clone());
                // Ok(Ok(v)): ran; Ok(Err(..)): the machine refused the program / input or the execution failed
                let got = std::panic::catch_unwind(std::panic::AssertUnwindSafe(move || -> Result<Value, String> {
                    let mut mac = BitMachine::for_program(&r2).map_err(|e| format!("for_program: {}", e))?;
                    mac.input(&i2).map_err(|e| format!("input: {}", e))?;
                    mac.exec(&r2, &CoreEnv::new()).map_err(|e| format!("exec: {}", e))
                }));
                match (got, expect) {
                    (Err(_), _) => fails.push(format!("`{}` on input {}: the Bit Machine PANICS (a machine sized from the static bounds {:?})", name, input, redeem.bounds())),
                    (Ok(Err(e)), Val(v)) => fails.push(format!("`{}` on input {}: the Bit Machine refuses or fails ({}), the semantics give {}", name, input, e, v)),
                    (Ok(Ok(v)), Val(w)) if v != w => fails.push(format!("`{}` on input {}: the Bit Machine returns {}, the semantics give {}", name, input, v, w)),
                    (Ok(Ok(v)), Fails) => fails.push(format!("`{}` on input {}: the Bit Machine returns {}, but the semantics FAIL (hidden side of an assertion / fail node)", name, input, v)),
                    (Ok(Err(e)), Fails) if !e.starts_with("exec:") => fails.push(format!("`{}` on input {}: expected a failing execution, got {}", name, input, e)),
                    _ => {}
                }
                if fails.len() >= 8 {
                    return;
                }
            }
        });
        if fails.len() >= 8 {
            break;
        }
    }
    println!("TESTED: {} executions, {} of them expected to fail, {} of disconnect programs, {} on two fixed words", tested, n_fail_expected, n_disconnect, n_fixed);
    for f in &fails {
        println!("CEX: {}", f);
    }
    assert!(!fails.is_empty() || (tested > 900 && n_fail_expected > 20 && n_disconnect > 50), "the enumeration is too small to mean anything");
    assert!(fails.is_empty(), "{} failing execution(s)", fails.len());
    let _ = Core::Verify;
}
