// Native replay oracle for C14 (attached as `#[cfg(test)] mod` to a verbatim copy of the working tree).
// It is NOT the deciding step: it runs only after Verus has reported a failed obligation of the jets units, to
// turn that report into a concrete failing input on the real code (or to say that none was found).
use crate::jet::{Bitcoin, Core, Elements, Jet};
use crate::{BitIter, BitWriter};

fn bits_of(bytes: &[u8], n: usize) -> String {
    (0..n).map(|i| if bytes[i / 8] & (1 << (7 - i % 8)) != 0 { '1' } else { '0' }).collect()
}

fn encode<J: Jet>(j: &J) -> (Vec<u8>, usize) {
    let mut v = Vec::new();
    let n = {
        let mut sink: &mut dyn std::io::Write = &mut v;
        let mut w = BitWriter::new(&mut sink as &mut dyn std::io::Write);
        let n = j.encode(&mut w).expect("encode");
        w.flush_all().expect("flush");
        n
    };
    (v, n)
}

fn family<J: Jet + Copy + std::fmt::Debug + PartialEq>(name: &str, all: &[J], fails: &mut Vec<String>) {
    // encode then decode, with three different continuations after the code
    for j in all {
        let (bytes, n) = encode(j);
        for fill in [0x00u8, 0xff, 0xa5] {
            let mut b = bytes.clone();
            // overwrite the padding bits and append a continuation
            if n % 8 != 0 {
                let keep = 0xffu8 << (8 - n % 8);
                let last = b.len() - 1;
                b[last] = (b[last] & keep) | (fill & !keep);
            }
            b.extend_from_slice(&[fill, fill, fill]);
            let mut it = BitIter::new(b.iter().copied());
            match J::decode(&mut it) {
                Ok(k) if k == *j && it.n_total_read() == n => {}
                other => fails.push(format!(
                    "family={} jet={:?} code={} ({} bits) continuation={:#04x}: decode returned {:?} after {} bits",
                    name, j, bits_of(&bytes, n), n, fill, other.map_err(|e| e.to_string()), it.n_total_read()
                )),
            }
        }
    }
    // decode then encode: every 24-bit input (codes are at most 21 bits long)
    for x in 0u32..(1 << 24) {
        let b = [(x >> 16) as u8, (x >> 8) as u8, x as u8, 0, 0];
        let mut it = BitIter::new(b.iter().copied());
        if let Ok(j) = J::decode(&mut it) {
            let used = it.n_total_read();
            let (bytes, n) = encode(&j);
            if n != used || bits_of(&bytes, n) != bits_of(&b, used.min(40)) {
                let msg = format!(
                    "family={} input bits {} decode to jet={:?} after {} bits, but that jet encodes as {} ({} bits)",
                    name, bits_of(&b, used.min(40)), j, used, bits_of(&bytes, n), n
                );
                if !fails.contains(&msg) {
                    fails.push(msg);
                }
                if fails.len() > 20 {
                    return;
                }
            }
        }
    }
}

#[test]
fn c14_jet_codes_replay() {
    let mut fails = Vec::new();
    family("Core", &Core::ALL, &mut fails);
    family("Elements", &Elements::ALL, &mut fails);
    family("Bitcoin", &Bitcoin::ALL, &mut fails);
    for f in &fails {
        println!("CEX: {}", f);
    }
    assert!(fails.is_empty(), "{} failing input(s)", fails.len());
}

// ---------------------------------------------------------------------------------------------------------------------
// C14, the table clauses no contract reaches (generated `Display` / `FromStr` string tables; cross-family comparison):
// EXHAUSTIVE over the three finite jet tables, but native - labelled bounded, never counted as proved.
//   * every jet's name parses back to it, and no two jets of a family share a name;
//   * every Core jet has an Elements namesake with the same source type and target type, and the same
//     code behind the family prefix bit (Elements code = '0' + Core code).
// ---------------------------------------------------------------------------------------------------------------------
fn names<J: Jet + Copy + std::fmt::Debug + PartialEq + std::fmt::Display + std::str::FromStr>(name: &str, all: &[J], fails: &mut Vec<String>) {
    let mut seen = std::collections::HashMap::new();
    for j in all {
        let s = j.to_string();
        match s.parse::<J>() {
            Ok(k) if k == *j => {}
            Ok(k) => fails.push(format!("family={} jet={:?} prints as {:?}, which parses to the different jet {:?}", name, j, s, k)),
            Err(_) => fails.push(format!("family={} jet={:?} prints as {:?}, which does not parse", name, j, s)),
        }
        if let Some(prev) = seen.insert(s.clone(), *j) {
            fails.push(format!("family={} jets {:?} and {:?} both print as {:?}", name, prev, j, s));
        }
    }
}

#[test]
fn c14_jet_names_replay() {
    let mut fails = Vec::new();
    names("Core", &Core::ALL, &mut fails);
    names("Elements", &Elements::ALL, &mut fails);
    names("Bitcoin", &Bitcoin::ALL, &mut fails);
    for c in Core::ALL.iter() {
        let name = c.to_string();
        let e = match Elements::ALL.iter().find(|e| e.to_string() == name) {
            Some(e) => e,
            None => {
                fails.push(format!("Core jet {:?} ({}) has no Elements namesake", c, name));
                continue;
            }
        };
        if c.source_ty().to_final() != e.source_ty().to_final() || c.target_ty().to_final() != e.target_ty().to_final() {
            fails.push(format!("Core jet {:?}: {} -> {}, but its Elements namesake: {} -> {}", c, c.source_ty().to_final(), c.target_ty().to_final(), e.source_ty().to_final(), e.target_ty().to_final()));
        }
        let (cb, cn) = encode(c);
        let (eb, en) = encode(e);
        if en != cn + 1 || bits_of(&eb, en) != format!("0{}", bits_of(&cb, cn)) {
            fails.push(format!("Core jet {:?} has code {}, its Elements namesake {} (expected '0' + the Core code)", c, bits_of(&cb, cn), bits_of(&eb, en)));
        }
        if fails.len() > 20 {
            break;
        }
    }
    for f in &fails {
        println!("CEX: {}", f);
    }
    assert!(fails.is_empty(), "{} failing jet(s)", fails.len());
}
