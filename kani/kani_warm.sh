#!/bin/sh
# Warm the Kani dependency build (about 1 min cold) so that the first quick check is not slow.
cd "$(dirname "$0")/.."
python3 -c "
import sys
sys.path.insert(0, '.')
import kani_run
r = kani_run.run_harnesses(['s01_u8_checked_shl'], '/repo', 'quick', timeout=1500)
print('kani warm-up:', r['harnesses'][0]['status'])
"
