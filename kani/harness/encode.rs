// Kani harnesses for src/bit_encoding/encode.rs: bounded fallback for unit `encode` (property C01).
use super::*;

/// a statically dispatched, allocation-free sink
struct ArrSink {
    buf: [u8; 8],
    len: usize,
}

impl io::Write for ArrSink {
    fn write(&mut self, b: &[u8]) -> io::Result<usize> {
        let mut i = 0;
        while i < b.len() {
            self.buf[self.len] = b[i];
            self.len += 1;
            i += 1;
        }
        Ok(b.len())
    }
    fn flush(&mut self) -> io::Result<()> {
        Ok(())
    }
}

/// kind: bounded(<= 3 leading bits, then a 2-byte hash)
/// encode_hash appends every byte most significant bit first, at any bit offset
#[kani::proof]
#[kani::unwind(20)]
fn c01_encode_hash_bounded() {
    let mut sink = ArrSink { buf: [0; 8], len: 0 };
    let lead: usize = kani::any();
    kani::assume(lead <= 3);
    let h: [u8; 2] = kani::any();
    {
        let mut w = BitWriter::new(&mut sink);
        let mut i = 0;
        while i < lead {
            w.write_bit(true).unwrap();
            i += 1;
        }
        assert!(encode_hash(&h, &mut w).unwrap() == 16);
        assert!(w.n_total_written() == lead + 16);
        w.flush_all().unwrap();
    }
    let j: usize = kani::any();
    kani::assume(j < 16);
    let pos = lead + j;
    let got = sink.buf[pos / 8] & (1 << (7 - pos % 8)) != 0;
    assert!(got == (h[j / 8] & (1 << (7 - j % 8)) != 0));
}
