// Kani harnesses for src/bit_encoding/bititer.rs (child module: sees private items).
// kind: complete  = no loop depends on a symbolic value beyond a fixed bound covered by the unwind,
//                   inputs are full-domain kani::any(); counted as proved.
// kind: bounded(k) = symbolic input length bounded by k; never counted as proved.
use super::*;

/// kind: complete
/// read_cmr returns the 32 bytes that start at the current bit position, for every alignment and
/// every content (33 symbolic bytes, 0..=7 bits consumed first), and advances the counter by 256.
#[kani::proof]
#[kani::unwind(34)]
fn c13_read_cmr_complete() {
    let bytes: [u8; 33] = kani::any();
    let k: usize = kani::any();
    kani::assume(k < 8);
    let mut it = BitIter::from(bytes.iter().copied());
    let mut i = 0;
    while i < k {
        let _ = it.next();
        i += 1;
    }
    let before = it.n_total_read();
    let cmr = it.read_cmr().unwrap();
    let out: &[u8] = cmr.as_ref();
    let j: usize = kani::any();
    kani::assume(j < 32);
    let expect = if k == 0 { bytes[j] } else { (bytes[j] << k) | (bytes[j + 1] >> (8 - k)) };
    assert!(out[j] == expect);
    assert!(it.n_total_read() == before + 256);
}

/// kind: complete
/// a stream with fewer than 256 bits left makes read_cmr fail (never a short/zero-filled root)
#[kani::proof]
#[kani::unwind(34)]
fn c13_read_cmr_short_complete() {
    let bytes: [u8; 32] = kani::any();
    let k: usize = kani::any();
    kani::assume(1 <= k && k < 8);
    let mut it = BitIter::from(bytes.iter().copied());
    let mut i = 0;
    while i < k {
        let _ = it.next();
        i += 1;
    }
    assert!(it.read_cmr().is_err());
}

/// kind: complete
#[kani::proof]
#[kani::unwind(66)]
fn c13_read_fail_entropy_complete() {
    let bytes: [u8; 65] = kani::any();
    let k: usize = kani::any();
    kani::assume(k < 8);
    let mut it = BitIter::from(bytes.iter().copied());
    let mut i = 0;
    while i < k {
        let _ = it.next();
        i += 1;
    }
    let before = it.n_total_read();
    let e = it.read_fail_entropy().unwrap();
    let out: &[u8] = e.as_ref();
    let j: usize = kani::any();
    kani::assume(j < 64);
    let expect = if k == 0 { bytes[j] } else { (bytes[j] << k) | (bytes[j + 1] >> (8 - k)) };
    assert!(out[j] == expect);
    assert!(it.n_total_read() == before + 512);
}

/// kind: bounded(20)
/// collect_bits packs MSB-first, zero-pads the last byte and reports the bit length (<= 20 bits)
#[kani::proof]
#[kani::unwind(22)]
fn c13_collect_bits_bounded20() {
    let bits: [bool; 20] = kani::any();
    let n: usize = kani::any();
    kani::assume(n <= 20);
    let (bytes, len) = bits[..n].iter().copied().collect_bits();
    assert!(len == n);
    assert!(bytes.len() == (n + 7) / 8);
    let j: usize = kani::any();
    kani::assume(j < 8 * bytes.len());
    let got = bytes[j / 8] & (1 << (7 - j % 8)) != 0;
    assert!(got == (j < n && bits[j]));
}

/// kind: cex  (counterexample source for obligation BitIter::byte_slice_window__exact, finding D3)
#[kani::proof]
#[kani::unwind(26)]
fn c13_byte_slice_window_exact_cex() {
    let data: [u8; 3] = kani::any();
    let start: usize = kani::any();
    let end: usize = kani::any();
    kani::assume(start <= end && end <= 24);
    let it = BitIter::byte_slice_window(&data, start, end);
    let mut n = 0;
    for _ in it {
        n += 1;
    }
    assert!(n == end - start);
}
