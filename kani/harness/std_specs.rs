// Kani cross-checks of the std contracts ASSUMED in /verif/prelude/std_specs.rs.
// Every harness is loop-free over the full input domain: a complete proof (kind: complete).

/// kind: complete
/// S-01 u8::checked_shl
#[kani::proof]
fn s01_u8_checked_shl() {
    let x: u8 = kani::any();
    let rhs: u32 = kani::any();
    let r = x.checked_shl(rhs);
    if rhs < 8 {
        assert!(r == Some(x << rhs));
    } else {
        assert!(r.is_none());
    }
}

/// kind: complete
/// S-02 usize::leading_zeros: 2^(63-r) <= n < 2^(64-r)  <=>  n >> (63-r) == 1
#[kani::proof]
fn s02_usize_leading_zeros() {
    let n: usize = kani::any();
    let r = n.leading_zeros();
    assert!(r <= 64);
    assert!((n == 0) == (r == 64));
    if n > 0 {
        assert!(n >> (63 - r) == 1);
    }
}

/// kind: complete
/// S-03 Result::unwrap_or
#[kani::proof]
fn s03_result_unwrap_or() {
    let v: usize = kani::any();
    let d: usize = kani::any();
    let ok: bool = kani::any();
    let r: Result<usize, u8> = if ok { Ok(v) } else { Err(kani::any()) };
    assert!(r.unwrap_or(d) == if ok { v } else { d });
}

/// kind: complete
/// S-04 u32::from(bool)
#[kani::proof]
fn s04_u32_from_bool() {
    let b: bool = kani::any();
    assert!(u32::from(b) == if b { 1 } else { 0 });
}

/// kind: complete
/// S-05 i32::try_from(u32)
#[kani::proof]
fn s05_i32_try_from_u32() {
    let n: u32 = kani::any();
    let r = i32::try_from(n);
    assert!(r.is_ok() == (n <= 0x7fff_ffff));
    if let Ok(v) = r {
        assert!(v as i64 == n as i64);
    }
}

/// kind: complete
/// S-06 usize::try_from(usize) (reflexive blanket impl) and usize::try_from(u32)
#[kani::proof]
fn s06_usize_try_from() {
    let n: usize = kani::any();
    let r: Result<usize, _> = n.try_into();
    match r {
        Ok(v) => assert!(v == n),
        Err(_) => assert!(false),
    }
    let m: u32 = kani::any();
    let q: Result<usize, _> = m.try_into();
    match q {
        Ok(v) => assert!(v == m as usize),
        Err(_) => assert!(false),
    }
}

/// kind: complete
/// S-07 usize::div_ceil, divisor 8 (the only divisor used under contract), every dividend
#[kani::proof]
fn s07_usize_div_ceil_8() {
    let a: usize = kani::any();
    let r = a.div_ceil(8);
    assert!(r as u128 == (a as u128 + 7) / 8);
}
