// Kani harnesses for src/bit_encoding/bitwriter.rs (+ the reader), fallback/cross-check for unit `bitstream`.
use super::*;
use crate::BitIter;
use std::io::Write;

/// a statically dispatched, allocation-free sink
struct ArrSink {
    buf: [u8; 12],
    len: usize,
}

impl io::Write for ArrSink {
    fn write(&mut self, b: &[u8]) -> io::Result<usize> {
        let mut i = 0;
        while i < b.len() {
            self.buf[self.len] = b[i];
            self.len += 1;
            i += 1;
        }
        Ok(b.len())
    }
    fn flush(&mut self) -> io::Result<()> {
        Ok(())
    }
}

/// kind: bounded(<= 9 bit writes, then <= 9 bits of write_bits_be, then 2 bytes through io::Write)
/// every written bit reaches the sink in order, zero padded, with consistent counters
#[kani::proof]
#[kani::unwind(20)]
fn c13_writer_ops_bounded() {
    let mut sink = ArrSink { buf: [0; 12], len: 0 };
    let bits: [bool; 9] = kani::any();
    let k1: usize = kani::any();
    kani::assume(k1 <= 9);
    let n: u64 = kani::any();
    let len: usize = kani::any();
    kani::assume(len <= 9);
    let bytes: [u8; 2] = kani::any();
    let mut expect = [false; 40];
    let mut m = 0;
    {
        let mut w = BitWriter::new(&mut sink);
        let mut i = 0;
        while i < k1 {
            w.write_bit(bits[i]).unwrap();
            expect[m] = bits[i];
            m += 1;
            i += 1;
        }
        assert!(w.write_bits_be(n, len).unwrap() == len);
        let mut i = 0;
        while i < len {
            expect[m] = (n >> (len - 1 - i)) & 1 == 1;
            m += 1;
            i += 1;
        }
        w.write_all(&bytes).unwrap();
        let mut i = 0;
        while i < 16 {
            expect[m] = bytes[i / 8] & (1 << (7 - i % 8)) != 0;
            m += 1;
            i += 1;
        }
        assert!(w.n_total_written() == m);
        w.flush_all().unwrap();
    }
    assert!(sink.len == (m + 7) / 8);
    let j: usize = kani::any();
    kani::assume(j < 8 * sink.len);
    let got = sink.buf[j / 8] & (1 << (7 - j % 8)) != 0;
    assert!(got == (j < m && expect[j]));
}

/// kind: bounded(4 input bytes; <= 9 single-bit reads, then read_u8, read_u2, close)
#[kani::proof]
#[kani::unwind(12)]
fn c13_reader_ops_bounded() {
    let bytes: [u8; 4] = kani::any();
    let k: usize = kani::any();
    kani::assume(k <= 9);
    let bit = |j: usize| bytes[j / 8] & (1 << (7 - j % 8)) != 0;
    let mut it = BitIter::from(bytes.iter().copied());
    let mut i = 0;
    while i < k {
        assert!(it.read_bit() == Ok(bit(i)));
        i += 1;
    }
    let b = it.read_u8().unwrap();
    let j: usize = kani::any();
    kani::assume(j < 8);
    assert!((b & (1 << (7 - j)) != 0) == bit(k + j));
    let two = it.read_u2().unwrap();
    assert!(u8::from(two) == (bit(k + 8) as u8) * 2 + bit(k + 9) as u8);
    assert!(it.n_total_read() == k + 10);
    // close succeeds exactly when nothing but zero padding remains
    let consumed = k + 10;
    let mut rest_zero = true;
    let mut q = consumed;
    while q < (consumed + 7) / 8 * 8 {
        if bit(q) {
            rest_zero = false;
        }
        q += 1;
    }
    let no_more_bytes = (consumed + 7) / 8 == 4;
    assert!(it.close().is_ok() == (no_more_bytes && rest_zero));
}

/// kind: bounded(<= 7 bits, flush, <= 9 more bits, flush)
/// a writer keeps working after flush_all: the bits written afterwards reach the sink unchanged, zero padded
#[kani::proof]
#[kani::unwind(12)]
fn c13_write_after_flush_bounded() {
    let mut sink = ArrSink { buf: [0; 12], len: 0 };
    let b1: [bool; 7] = kani::any();
    let k1: usize = kani::any();
    kani::assume(k1 <= 7);
    let b2: [bool; 9] = kani::any();
    let k2: usize = kani::any();
    kani::assume(k2 <= 9);
    {
        let mut w = BitWriter::new(&mut sink);
        let mut i = 0;
        while i < k1 {
            w.write_bit(b1[i]).unwrap();
            i += 1;
        }
        w.flush_all().unwrap();
        let mut i = 0;
        while i < k2 {
            w.write_bit(b2[i]).unwrap();
            i += 1;
        }
        w.flush_all().unwrap();
    }
    let first = if k1 > 0 { 1 } else { 0 };
    assert!(sink.len == first + (k2 + 7) / 8);
    let j: usize = kani::any();
    kani::assume(j < 8 * sink.len);
    let got = sink.buf[j / 8] & (1 << (7 - j % 8)) != 0;
    let want = if j < 8 * first { j < k1 && b1[j] } else { j - 8 * first < k2 && b2[j - 8 * first] };
    assert!(got == want);
}

/// kind: bounded(3-byte slice, window start <= 7, end byte-aligned; <= 9 single-bit reads, then close)
/// a window over a byte slice that starts inside a byte reads the right bits, and close succeeds exactly when only
/// zero bits remain in the last byte of the window
#[kani::proof]
#[kani::unwind(12)]
fn c13_window_close_bounded() {
    let bytes: [u8; 3] = kani::any();
    let start: usize = kani::any();
    kani::assume(start <= 7);
    let end_bytes: usize = kani::any();
    kani::assume(end_bytes >= 1 && end_bytes <= 3);
    let end = 8 * end_bytes;
    let bit = |j: usize| bytes[j / 8] & (1 << (7 - j % 8)) != 0;
    let mut it = BitIter::byte_slice_window(&bytes, start, end);
    let k: usize = kani::any();
    kani::assume(k <= 9 && start + k <= end);
    let mut i = 0;
    while i < k {
        assert!(it.read_bit() == Ok(bit(start + i)));
        i += 1;
    }
    let consumed = start + k;
    let mut rest_zero = true;
    let mut q = consumed;
    // the rest of the current byte (if the cursor stands inside one)
    while q % 8 != 0 {
        if bit(q) {
            rest_zero = false;
        }
        q += 1;
    }
    let no_more_bytes = (consumed + 7) / 8 * 8 >= end;
    assert!(it.close().is_ok() == (no_more_bytes && rest_zero));
}
