// Kani harnesses for src/bit_machine/limits.rs (complete: loop-free over all inputs).
use super::*;

/// kind: complete
/// C07: a frame bound is accepted exactly when it does not exceed 2^20 frames; a cell bound exactly when below 2^31 cells
#[kani::proof]
fn c07_limits_complete() {
    let n: usize = kani::any();
    assert!(LimitError::check_max_frames(n, "x").is_ok() == (n <= 1024 * 1024));
    assert!(LimitError::check_max_cells(n, "x").is_ok() == (n <= 2 * 1024 * 1024 * 1024 - 1));
}
