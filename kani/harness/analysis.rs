// Kani harnesses for src/analysis.rs (child module: sees U32Weight, Cost.0, get_budget)
use super::*;

/// kind: complete
/// derive(PartialOrd/Ord/PartialEq) on the single-field tuple structs is the field's order
/// (assumed by unit `budget`)
#[kani::proof]
fn c19_derived_order_complete() {
    let a: u32 = kani::any();
    let b: u32 = kani::any();
    assert!((U32Weight(a) <= U32Weight(b)) == (a <= b));
    assert!((U32Weight(a) < U32Weight(b)) == (a < b));
    assert!((U32Weight(a) == U32Weight(b)) == (a == b));
    assert!((Cost(a) <= Cost(b)) == (a <= b));
    assert!((Cost(a) == Cost(b)) == (a == b));
}

fn cs(n: usize) -> usize {
    if n <= 252 {
        1
    } else if n <= 0xffff {
        3
    } else {
        5
    }
}

/// kind: bounded(2 items, lengths in {0,1,2,252,253,254})
/// the contract assumed for get_budget: serialized length = CompactSize(count) + sum(CompactSize(len)+len), + 50
#[kani::proof]
#[kani::unwind(4)]
fn c19_get_budget_bounded() {
    let pick = |k: u8| -> usize {
        match k % 6 {
            0 => 0,
            1 => 1,
            2 => 2,
            3 => 252,
            4 => 253,
            _ => 254,
        }
    };
    let n_items: usize = kani::any();
    kani::assume(n_items <= 2);
    let l0 = pick(kani::any());
    let l1 = pick(kani::any());
    let mut stack: Vec<Vec<u8>> = Vec::new();
    if n_items >= 1 {
        stack.push(vec![0u8; l0]);
    }
    if n_items >= 2 {
        stack.push(vec![0u8; l1]);
    }
    let mut expect = cs(n_items);
    if n_items >= 1 {
        expect += cs(l0) + l0;
    }
    if n_items >= 2 {
        expect += cs(l1) + l1;
    }
    let b = Cost::get_budget(&stack);
    assert!(b.0 as usize == expect + 50);
}

/// kind: bounded(40)
/// the annex-building expression of get_padding (R8 `make_annex`): 0x50 followed by padding_len zeros
#[kani::proof]
#[kani::unwind(43)]
fn c19_make_annex_bounded() {
    let padding_len: usize = kani::any();
    kani::assume(padding_len <= 40);
    let annex_bytes: Vec<u8> = std::iter::once(0x50)
        .chain(std::iter::repeat(0x00).take(padding_len))
        .collect();
    assert!(annex_bytes.len() == padding_len + 1);
    let j: usize = kani::any();
    kani::assume(j <= padding_len);
    assert!(annex_bytes[j] == if j == 0 { 0x50 } else { 0 });
}

/// kind: bounded(deficit <= 10, empty stack)
/// end-to-end on the real get_padding + is_budget_valid with the real consensus encoder:
/// a padded stack is within budget; one byte less is not
#[kani::proof]
#[kani::unwind(14)]
fn c19_padding_end_to_end_bounded() {
    let c: u32 = kani::any();
    // empty stack: budget = 1 + 50 = 51 weight units
    kani::assume(c <= 61_000);
    let cost = Cost(c);
    let mut stack: Vec<Vec<u8>> = Vec::new();
    match cost.get_padding(&stack) {
        None => assert!(cost.is_budget_valid(&stack)),
        Some(annex) => {
            assert!(!cost.is_budget_valid(&stack));
            assert!(annex[0] == 0x50);
            let shorter_len = annex.len() - 1;
            stack.push(annex);
            assert!(cost.is_budget_valid(&stack));
            if shorter_len >= 1 {
                let mut stack2: Vec<Vec<u8>> = Vec::new();
                stack2.push(vec![0u8; shorter_len]);
                assert!(!cost.is_budget_valid(&stack2));
            }
        }
    }
}

fn any_bounds() -> NodeBounds {
    NodeBounds { extra_cells: kani::any(), extra_frames: kani::any(), cost: Cost(kani::any()) }
}

/// kind: complete
/// C07: the static bounds of case / comp / disconnect dominate both children in cells AND frames (loop-free, all inputs)
#[kani::proof]
fn c07_bounds_dominate_children_complete() {
    let (l, r) = (any_bounds(), any_bounds());
    let (lc, lf, rc, rf) = (l.extra_cells, l.extra_frames, r.extra_cells, r.extra_frames);
    let c = NodeBounds::case(l, r);
    assert!(c.extra_cells >= lc && c.extra_cells >= rc);
    assert!(c.extra_frames >= lf && c.extra_frames >= rf);
    assert!(c.extra_cells == if lc > rc { lc } else { rc });
    assert!(c.extra_frames == if lf > rf { lf } else { rf });
}

/// kind: complete
/// C07: comp adds the middle type's cells and one frame on top of the larger child, saturating
#[kani::proof]
fn c07_bounds_comp_complete() {
    let (l, r) = (any_bounds(), any_bounds());
    let (lc, lf, rc, rf) = (l.extra_cells, l.extra_frames, r.extra_cells, r.extra_frames);
    let mid: usize = kani::any();
    let c = NodeBounds::comp(l, r, mid);
    let mc = if lc > rc { lc } else { rc };
    let mf = if lf > rf { lf } else { rf };
    assert!(c.extra_cells == mid.saturating_add(mc));
    assert!(c.extra_frames == mf.saturating_add(1));
}

