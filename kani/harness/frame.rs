// Kani harnesses for src/bit_machine/frame.rs (child module: sees Frame's private fields).
// They re-check, bit-precisely on the real code, the contracts proved by Verus in unit `machine`, and they
// are the FALLBACK when a rewritten body can no longer be woven into the Verus unit.
use super::*;

fn gbit(data: &[u8], i: usize) -> bool {
    data[i / 8] & (1 << (7 - i % 8)) != 0
}

/// kind: bounded(2-byte buffer, every cursor, every content)
/// write_bit sets exactly bit `cursor` and changes no other bit
#[kani::proof]
fn c05_frame_write_bit_bounded() {
    let old: [u8; 2] = kani::any();
    let mut data = old;
    let cursor: usize = kani::any();
    kani::assume(cursor < 16);
    let bit: bool = kani::any();
    let mut f = Frame::new(0, 16);
    f.move_cursor_forward(cursor);
    f.write_bit(bit, &mut data);
    let j: usize = kani::any();
    kani::assume(j < 16);
    assert!(gbit(&data, j) == if j == cursor { bit } else { gbit(&old, j) });
    assert!(f.cursor == cursor + 1 && f.start == 0 && f.len == 16);
}

/// kind: bounded(2-byte buffer, every cursor, every content)
#[kani::proof]
fn c05_frame_read_peek_bounded() {
    let data: [u8; 2] = kani::any();
    let cursor: usize = kani::any();
    kani::assume(cursor < 16);
    let mut f = Frame::new(0, 16);
    f.move_cursor_forward(cursor);
    assert!(f.peek_bit(&data) == gbit(&data, cursor));
    assert!(f.cursor == cursor);
    assert!(f.read_bit(&data) == gbit(&data, cursor));
    assert!(f.cursor == cursor + 1);
}

/// kind: bounded(3-byte buffer, every cursor, every content)
/// write_u8 is big-endian at every alignment and leaves every other bit unchanged (dirty buffers included)
#[kani::proof]
#[kani::unwind(10)]
fn c05_frame_write_u8_bounded() {
    let old: [u8; 3] = kani::any();
    let mut data = old;
    let cursor: usize = kani::any();
    kani::assume(cursor <= 16);
    let value: u8 = kani::any();
    let mut f = Frame::new(0, 24);
    f.move_cursor_forward(cursor);
    f.write_u8(value, &mut data);
    let j: usize = kani::any();
    kani::assume(j < 24);
    let expect = if j >= cursor && j < cursor + 8 { value & (1 << (7 - (j - cursor))) != 0 } else { gbit(&old, j) };
    assert!(gbit(&data, j) == expect);
    assert!(f.cursor == cursor + 8);
}

/// kind: bounded(5-byte buffer, length <= 12, every pair of alignments)
/// copy_from copies a bit range between non-overlapping ranges and changes nothing else
#[kani::proof]
#[kani::unwind(14)]
fn c05_frame_copy_from_bounded() {
    let old: [u8; 5] = kani::any();
    let mut data = old;
    let src: usize = kani::any();
    let dst: usize = kani::any();
    let len: usize = kani::any();
    kani::assume(len <= 12 && src <= 40 && dst <= 40 && src + len <= 40 && dst + len <= 40);
    kani::assume(src + len <= dst || dst + len <= src);
    let mut from = Frame::new(0, 40);
    from.move_cursor_forward(src);
    let mut to = Frame::new(0, 40);
    to.move_cursor_forward(dst);
    to.copy_from(&from, len, &mut data);
    let j: usize = kani::any();
    kani::assume(j < 40);
    let expect = if j >= dst && j < dst + len { gbit(&old, j - dst + src) } else { gbit(&old, j) };
    assert!(gbit(&data, j) == expect);
    assert!(to.cursor == dst + len && from.cursor == src);
}
