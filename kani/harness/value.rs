// Kani harnesses for src/value.rs: bounded fallback for unit `value` (property C10).
use super::*;

/// kind: bounded(3-byte buffers, <= 12 bits, every pair of alignments)
/// copy_bits ORs the source range into the destination range and changes nothing else
#[kani::proof]
#[kani::unwind(14)]
fn c10_copy_bits_bounded() {
    let src: [u8; 3] = kani::any();
    let dst0: [u8; 3] = kani::any();
    let mut dst = dst0;
    let src_offset: usize = kani::any();
    let dst_offset: usize = kani::any();
    let nbits: usize = kani::any();
    kani::assume(nbits <= 12 && src_offset <= 24 && dst_offset <= 24);
    kani::assume(src_offset + nbits <= 24 && dst_offset + nbits <= 24);
    copy_bits(&src, src_offset, &mut dst, dst_offset, nbits);
    let k: usize = kani::any();
    kani::assume(k < 24);
    let bit = |b: &[u8; 3], i: usize| b[i / 8] & (1 << (7 - i % 8)) != 0;
    if k >= dst_offset && k < dst_offset + nbits {
        assert!(bit(&dst, k) == (bit(&dst0, k) || bit(&src, k - dst_offset + src_offset)));
    } else {
        assert!(bit(&dst, k) == bit(&dst0, k));
    }
}
