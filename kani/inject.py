#!/usr/bin/env python3
"""inject.py <repo> <dest>: make a verbatim copy of the repo working tree and APPEND harness
modules (cfg(kani) only). No existing line of any source file is edited."""
import os, re, subprocess, sys

ROOT = os.path.dirname(os.path.abspath(__file__))
# module file (relative to repo) -> harness file; the harness becomes a child module and so sees
# the parent's private items
ATTACH = {
    "src/bit_encoding/bititer.rs": "bititer.rs",
    "src/lib.rs": "std_specs.rs",
    "src/analysis.rs": "analysis.rs",
    "src/bit_machine/frame.rs": "frame.rs",
    "src/bit_encoding/bitwriter.rs": "bitwriter.rs",
    "src/bit_encoding/encode.rs": "encode.rs",
    "src/value.rs": "value.rs",
    "src/bit_machine/limits.rs": "limits.rs",
}


def inject(repo, dest):
    os.makedirs(dest, exist_ok=True)
    subprocess.run(["rsync", "-a", "--delete", "--exclude", "/target", "--exclude", ".git", "--exclude", "/fuzz/target",
                    repo.rstrip("/") + "/", dest.rstrip("/") + "/"], check=True)
    attached = []
    for rel, h in sorted(ATTACH.items()):
        hp = os.path.join(ROOT, "harness", h)
        p = os.path.join(dest, rel)
        if not os.path.exists(hp):
            continue
        if not os.path.exists(p):
            raise SystemExit("lost anchor: %s missing" % rel)
        modname = "verif_kani_" + re.sub(r"[^a-z0-9]", "_", h[:-3])
        hd = os.path.join(dest, "verif_harness")
        os.makedirs(hd, exist_ok=True)
        hcopy = os.path.join(hd, h)
        open(hcopy, "w").write(open(hp).read())
        with open(p, "a") as f:
            f.write("\n#[cfg(kani)]\n#[path = \"%s\"]\nmod %s;\n" % (hcopy, modname))
        attached.append((rel, modname))
    # allow cfg(kani) under `unexpected_cfgs = deny`
    ct = os.path.join(dest, "Cargo.toml")
    s = open(ct).read()
    if "cfg(kani)" not in s:
        s2 = s.replace("'cfg(bench)'", "'cfg(bench)', 'cfg(kani)'")
        if s2 == s:
            s2 = s.replace('"cfg(bench)"', '"cfg(bench)", "cfg(kani)"')
        open(ct, "w").write(s2)
    cfgd = os.path.join(dest, ".cargo")
    os.makedirs(cfgd, exist_ok=True)
    with open(os.path.join(cfgd, "config.toml"), "a") as f:
        f.write("\n[net]\noffline = true\n")
    return attached


if __name__ == "__main__":
    print(inject(sys.argv[1], sys.argv[2]))
